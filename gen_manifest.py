#!/usr/bin/env python3
"""Generates MANIFEST.json from the tables below (kept as a script so that the manifest stays
consistent while checks are added). Run: python3 gen_manifest.py"""
import json
HOOK_COMMITS = ['96b786f6fcbdabe4683a64497155d37cbb5ac240', '7ec480e69d83130b5325c70e75ad5dc0e5a2bb80', 'bfbd01bac0f34d707fbbd2a9f8d69447ea6f7792']

NA = {
 "C01": "pure function expr -> expr of one immutable input: no schedule, peer, fault or history for a simulator to control (history dependence of the same code is C13, which is claimed)",
 "C05": "pure function expr -> SMT-LIB text; nothing to schedule or break (every term that crosses the simulated wire in C02/C03/C04/C10 is still sort-checked by the strict reference solver, as collateral only)",
 "C06": "pure function (expr, symbol values) -> value; no nondeterminism or fault dimension",
 "C08": "pure function btor2 text -> system; the public entry point takes &str, there is not even a stream to perturb",
 "C09": "composition of two pure functions (write, read) on one immutable system",
 "C11": "pure functions system -> system; no schedule, peer or fault involved",
 "C16": "pure round trip on complete text; std's BufRead::lines / write_all absorb every lossless stream perturbation (short read/write, EINTR), lossy ones are outside the statement",
 "C17": "pure graph analysis of one immutable system",
 "C19": "pure rule soundness over widths/values; the rayon/Mutex code of the synthesis tool is not what the property is about",
}

CLAIMED = {
 "C02": dict(level="exploration",
   text="Seeded search over generated transition systems x solver profile x bad-state mode x simplification x bound, each run through the real parse->simplify->SmtLibSolverCtx->bmc pipeline against a simulated solver process whose model choices and transport behaviour are drawn from the run seed; every verdict is compared with exhaustive explicit-state reachability. Sampling, not proof.",
   note="Trusts the reference solver (validated by `./check selftest` against its own evaluator, brute force and the z3 binary) and the reachability oracle; systems are bounded to <= 11 state bits, <= 8 input bits, k <= 8.",
   technique="deterministic simulation: simulated solver process + seeded model/transport choices, reference-model oracle (explicit-state reachability)", ref="4/C02"),
}

checks = []
for pid, c in sorted(CLAIMED.items()):
    checks.append({
        "property_id": pid,
        "quick_cmd": f"./check {pid} --tier quick",
        "thorough_cmd": f"./check {pid} --tier thorough",
        "evidence_file": f"/verif/evidence/{pid}.json",
        "replay_cmd_template": f"./check {pid} --replay {{path}}",
        "engine": "patsim",
        "level_claimed": {"category": c["level"], "text": c["text"], "design_ref": "DESIGN.md section " + c["ref"]},
        "level_note": c["note"],
        "technique": c["technique"],
    })

all_ids = [f"C{n:02d}" for n in range(1, 21)]
not_applicable = [{"property_id": p, "reason": NA[p]} for p in sorted(NA)]
pending = [p for p in all_ids if p not in NA and p not in CLAIMED]
for p in pending:
    not_applicable.append({"property_id": p, "reason": "not claimed yet: the check for this property is still being built (see DESIGN.md section 4); no verdict is offered"})

manifest = {
  "version": 1,
  "setup_cmd": "cd /verif/sim && CARGO_NET_OFFLINE=true cargo build --release --offline && cd /verif && ./check selftest",
  "hooks": {
    "guard": "cargo feature `patronus_verif` (crates patronus and patronus-dse), off by default",
    "enable": "the harness crate /verif/sim depends on /repo/patronus and /repo/patronus-dse by path with features = [\"patronus_verif\"]; nothing is enabled through RUSTFLAGS",
    "baseline_off_cmd": "cd /repo && cargo test --workspace --no-fail-fast --offline",
    "source_commits": HOOK_COMMITS,
    "add_only": True,
  },
  "engines": [{
    "name": "patsim",
    "path": "/verif/sim",
    "serves_properties": sorted(CLAIMED),
    "kind_free_text": "deterministic simulator: seeded scheduler, simulated solver process (strict SMT-LIB front end, bit-blaster, CDCL) behind a process/pipe seam, fault injector, reference models, delta-debugging minimiser, replay",
  }],
  "checks": checks,
  "not_applicable": not_applicable,
  "notes": "Fixed default seed (VERIF_SEED=1). Exit 0 = held, 1 = VIOLATION line with replay file, 2 = harness error. Known findings are listed in /verif/known_findings.json and reported as KNOWN-FINDING lines.",
}
json.dump(manifest, open("/verif/MANIFEST.json", "w"), indent=1)
print("wrote MANIFEST.json:", len(checks), "checks,", len(not_applicable), "not applicable")
