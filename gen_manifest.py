#!/usr/bin/env python3
"""Generates MANIFEST.json from the tables below (kept as a script so that the manifest stays
consistent while checks are added). Run: python3 gen_manifest.py"""
import json
HOOK_COMMITS = ['96b786f6fcbdabe4683a64497155d37cbb5ac240', '7ec480e69d83130b5325c70e75ad5dc0e5a2bb80', 'bfbd01bac0f34d707fbbd2a9f8d69447ea6f7792']

NA = {
 "C01": "pure function expr -> expr of one immutable input: no schedule, peer, fault or history for a simulator to control (history dependence of the same code is C13, which is claimed)",
 "C05": "pure function expr -> SMT-LIB text; nothing to schedule or break (every term that crosses the simulated wire in C02/C03/C04/C10 is still sort-checked by the strict reference solver, as collateral only)",
 "C06": "pure function (expr, symbol values) -> value; no nondeterminism or fault dimension",
 "C08": "pure function btor2 text -> system; the public entry point takes &str, there is not even a stream to perturb",
 "C09": "composition of two pure functions (write, read) on one immutable system",
 "C11": "pure functions system -> system; no schedule, peer or fault involved",
 "C16": "pure round trip on complete text; std's BufRead::lines / write_all absorb every lossless stream perturbation (short read/write, EINTR), lossy ones are outside the statement",
 "C17": "pure graph analysis of one immutable system",
 "C19": "pure rule soundness over widths/values; the rayon/Mutex code of the synthesis tool is not what the property is about",
}

SIM = "deterministic simulation: real patronus code against a simulated solver process behind the process/pipe seam (hook H1); one seed decides workload, solver answers (models, cores, print forms) and transport events; "
TRUST = "Trusts the reference solver (validated by `./check selftest` against its own evaluator, brute force and the z3 binary) and the reference semantics; bounded sizes (see evidence.assumptions). Sampling, not proof."
CLAIMED = {
 "C02": dict(level="exploration",
   text="Seeded search over generated transition systems x solver profile x bad-state mode x simplification x bound, each run through the real parse->simplify->SmtLibSolverCtx->bmc pipeline against a simulated solver process whose model choices and transport behaviour are drawn from the run seed; every verdict is compared with exhaustive explicit-state reachability.",
   note=TRUST, technique=SIM+"oracle = exhaustive explicit-state reachability (reference model)", ref="4/C02"),
 "C03": dict(level="exploration",
   text="Failing systems are model-checked (bmc, and pdr with its BMC fallback) several times under different seeded answer policies of the simulated solver (which model, don't-care values, print forms); every returned witness is replayed in an independent reference simulator: names/order, init expressions, constraints at every step, exact set of failed bad states.",
   note=TRUST, technique=SIM+"oracle = witness replay in the reference transition-system semantics", ref="4/C03"),
 "C04": dict(level="exploration",
   text="The public unrolling API (init_at(0) / init_at(j>0), unroll x n, also on an encoder object that was used before and whose solver was restarted) and whole BMC/PDR conversations are driven over the real SmtLibSolverCtx to a strict SMT-LIB 2.6 reference solver that rejects redefinition, use before definition, ill-sorted terms and out-of-mode commands (wire monitor on every message); faithfulness is checked by evaluating the per-step symbols out of band under random concrete executions of the system.",
   note=TRUST+" `(as const ...)` (an extension) rejected by a profile is treated as a capability question (C02), not as ill-formedness.", technique=SIM+"invariant on every wire message (strict reference solver) + history check against reference executions", ref="4/C04"),
 "C10": dict(level="exploration",
   text="Bit-vector systems are run through the real pdr engine (incl. solver restart and BMC fallback) under seeded solver choices: which model becomes a cube, which unsat core (minimal by randomised deletion / full / in between; shuffled; re-spelled) drives generalisation, both generalisation modes, check-sat-assuming and push/pop styles; verdicts are compared with full-fixpoint explicit-state reachability and any error/Unknown/panic/deadlock/step-budget overrun is a violation.",
   note=TRUST, technique=SIM+"oracle = full-fixpoint explicit-state reachability; liveness as a step bound on transport events", ref="4/C10"),
 "C07": dict(level="exploration",
   text="sim::Interpreter is driven as a stateful server by seeded operation histories (init zero/random, set, step, get of states/inputs/outputs/bads/constraints/next+init roots/named nodes/random sub-expressions, take_snapshot, restore_snapshot of any earlier id, re-init; simulator built with new or new_with_trace) on generated systems entered as btor2 text; after every operation it is compared with a reference model (map + independent evaluator; snapshots are clones of states and inputs), incl. seed determinism across histories and simulators.",
   note=TRUST, technique="deterministic simulation: seeded operation histories incl. snapshot/restore rollback against an executable reference model, checked operation by operation", ref="4/C07"),
 "C12": dict(level="exploration",
   text="2..4 logical clients with seeded, statically typed programs of builder calls (symbols, strings, literals of widths 1..200 built by 12 computation routes through Context and through the Builder wrapper, every public constructor incl. the compound ones checked against their composition, bursts of 10^4+ insertions) share one Context; the scheduler decides the interleaving of their calls; a shadow structural table is checked after every call and swept every 256 calls, and the equality pattern among all results must be the same under four interleavings.",
   note="Trusts the shadow table and the read-back through ctx[ref]. Context needs &mut, so interleaving of whole calls is the only schedule that exists.", technique="deterministic simulation: seeded interleaving of logical clients on one shared context, reference model = shadow structural table, schedule-invariance check", ref="4/C12"),
 "C13": dict(level="exploration",
   text="One Context, three long-lived servers (sparse-cache simplifier, dense-cache simplifier, fresh simplifier per request as sequential specification); 2..4 clients request simplification of batches from a pool with heavy sub-term sharing while the scheduler interleaves requests with construction of new pool members; per request: all three agree by reference, idempotent on shared and fresh instances, every answer repeated at the end; the same roots as one batch through simplify_expressions and through simplify_single_expression; now and then one expression of tens of thousands of nodes; termination as a step bound of 10^6 rewrite-loop iterations through hook H2.",
   note="Trusts reference equality of hash-consed expressions. No normal form is demanded.", technique="deterministic simulation: seeded request/construction interleaving on shared caches, fresh instance as sequential specification, step-fuel liveness bound", ref="4/C13"),
 "C14": dict(level="exploration",
   text="(b) random model values of all sorts (Bool, widths 1..129, arrays incl. Bool index/data) in every print form solvers use are read through the real get_value path from a scripted solver with short reads/EINTR; (c) the same replies cut at random offsets followed by solver exit, and unbalanced variants through parse_expr/parse_command, must yield Err (never a value, panic or hang); (a) the command logs of simulated BMC/PDR conversations are read back with read_command through a chunking reader and compared command by command (kind, symbol, sort, value under 16 random assignments) with the reference solver's independent parse.",
   note=TRUST+" Scoped: 'reader inverts writer' is decided on writer output that crosses the simulated wire, not on all expressions the writer could emit.", technique="deterministic simulation: scripted solver peer with seeded print forms and stream truncation, wire-log replay through a chunking reader, independent parser + evaluator as reference", ref="4/C14"),
 "C15": dict(level="fault_enumeration",
   text="For every sampled BMC/PDR conversation, every response-bearing point (all if <= 48) x every lossy fault kind (error replies of all lengths and shapes, unknown, empty, truncated+exit, exit before/after the command, exit after the reply, garbage, spawn failure) is replayed as a run with exactly that one fault against the fault-free twin of the same seed; solver-session API programs with restarts additionally run under sequences of two or more faults (one per session, spawn failures included); oracle: no panic/deadlock/livelock, no Success/Fail verdict resting on a faulty answer, solver error text carried in full, ineffective faults and benign perturbations change nothing, a restarted session answers as the fault-free run does, and no answer is returned once the solver process is dead.",
   note=TRUST+" Stalled-but-alive and lying solvers are outside the fault model. Enumeration is exhaustive per conversation, not for the property.", technique="deterministic simulation with fault injection: fault point x fault kind enumeration (and seeded fault sequences across restarts) over simulated solver conversations, clean-twin differential oracle, step-bounded hang detection", ref="4/C15"), "C18": dict(level="fault_enumeration",
   text="Valid btor2 files (shipped inputs and generator output) are stored and hit by storage faults: for files of <= 60 lines every single line-level fault (line lost, duplicated, swapped, torn tail at each line boundary) is enumerated, plus seeded sequences of 1..4 faults (bit flip, byte deleted/inserted, torn tail, line lost/duplicated/swapped/moved, token missing/corrupted with other ids, negations, huge numbers, non-ASCII, other operators); parse_str (parse_file_with_ctx on a scratch file when the bytes are not valid UTF-8) must return None or a system, never panic except for documented unsupported operators, and every accepted system is deep-checked (types node by node, init/next/bad/constraint types, declared symbols).",
   note="Trusts patronus' own per-node type_check as the definition of 'type-checks'. Faults are applied to the stored bytes, which reach the reader through parse_str, or through parse_file_with_ctx when they are not valid UTF-8. Non-termination of the reader would hang the check (no hook in the reader loop).", technique="deterministic simulation with fault injection on stored input: enumeration of single line-level faults + seeded fault sequences, accept/reject oracle with deep well-formedness check", ref="4/C18"),
 "C20": dict(level="exploration",
   text="One shared GuardCtx and Context; seeded histories of new / apply_bin_op / apply_ite / coalesce / import_into_guard / expr_to_guard over a small alphabet in which equal values recur in every order; after every operation (hook H3) the summary is compared with a reference table over all 256 valuations of the symbols: exactly one guard holds per valuation and its value is the operation applied to the argument values.",
   note="Trusts the independent evaluator for Boolean conditions and BDD terminals. Exhaustive over valuations, sampled over histories.", technique="deterministic simulation: seeded operation histories on a shared BDD manager against a total-function table model, invariant checked after every operation", ref="4/C20"),
}

checks = []
for pid, c in sorted(CLAIMED.items()):
    checks.append({
        "property_id": pid,
        "quick_cmd": f"./check {pid} --tier quick",
        "thorough_cmd": f"./check {pid} --tier thorough",
        "evidence_file": f"/verif/evidence/{pid}.json",
        "replay_cmd_template": f"./check {pid} --replay {{path}}",
        "engine": "patsim",
        "level_claimed": {"category": c["level"], "text": c["text"], "design_ref": "DESIGN.md section " + c["ref"]},
        "level_note": c["note"],
        "technique": c["technique"],
    })

all_ids = [f"C{n:02d}" for n in range(1, 21)]
not_applicable = [{"property_id": p, "reason": NA[p]} for p in sorted(NA)]
pending = [p for p in all_ids if p not in NA and p not in CLAIMED]
for p in pending:
    not_applicable.append({"property_id": p, "reason": "not claimed yet: the check for this property is still being built (see DESIGN.md section 4); no verdict is offered"})

manifest = {
  "version": 1,
  "setup_cmd": "cd /verif/sim && CARGO_NET_OFFLINE=true cargo build --release --offline && cd /verif && ./check selftest",
  "hooks": {
    "guard": "cargo feature `patronus_verif` (crates patronus and patronus-dse), off by default",
    "enable": "the harness crate /verif/sim depends on /repo/patronus and /repo/patronus-dse by path with features = [\"patronus_verif\"]; nothing is enabled through RUSTFLAGS",
    "baseline_off_cmd": "cd /repo && cargo test --workspace --no-fail-fast --offline",
    "source_commits": HOOK_COMMITS,
    "add_only": True,
  },
  "engines": [{
    "name": "patsim",
    "path": "/verif/sim",
    "serves_properties": sorted(CLAIMED),
    "kind_free_text": "deterministic simulator: seeded scheduler, simulated solver process (strict SMT-LIB front end, bit-blaster, CDCL) behind a process/pipe seam, fault injector, reference models, delta-debugging minimiser, replay",
  }],
  "checks": checks,
  "not_applicable": not_applicable,
  "notes": "Fixed default seed (VERIF_SEED=1). Exit 0 = held, 1 = VIOLATION line with replay file, 2 = harness error. Known findings are listed in /verif/known_findings.json and reported as KNOWN-FINDING lines.",
}
json.dump(manifest, open("/verif/MANIFEST.json", "w"), indent=1)
print("wrote MANIFEST.json:", len(checks), "checks,", len(not_applicable), "not applicable")
