#!/usr/bin/env python3
"""Rewrites the table of seeded changes in DESIGN.md (between the SEEDED markers) from seeded/*/meta.json."""
import json, glob, re
rows = []
for f in sorted(glob.glob('/verif/seeded/*/meta.json')):
    m = json.load(open(f))
    sid = f.split('/')[-2]
    prop = m.get('breaks_property') or m.get('property')
    summary = (m.get('summary') or '').replace('\n', ' ').replace('|', '/')
    if len(summary) > 260: summary = summary[:257] + '...'
    needs = (m.get('what_it_needs_to_manifest') or '').replace('\n', ' ').replace('|', '/')
    if len(needs) > 200: needs = needs[:197] + '...'
    det = ', '.join(m.get('detected_by', [])) or '-'
    first = ''
    for k in m.get('detected_by', []):
        fv = m['checks_run_against_it'][k].get('first_violation', '')
        mm = re.search(r'in run (\d+)', fv)
        orc = re.search(r'\): (\S+ \S+)', fv)
        first += f"{k}: run {mm.group(1) if mm else '?'} ({orc.group(1) if orc else '?'}); "
    note = m.get('note', '')
    rows.append(f"| {sid} | {prop} | {summary} | {needs} | {det} | {first.strip()} {note} |")
table = "| id | breaks | change | needs to manifest | caught by (quick tier) | first hit |\n|---|---|---|---|---|---|\n" + "\n".join(rows)
p = '/verif/DESIGN.md'
s = open(p).read()
b, e = '<!-- SEEDED-BEGIN -->', '<!-- SEEDED-END -->'
if b in s:
    s = s[:s.index(b) + len(b)] + "\n" + table + "\n" + s[s.index(e):]
    open(p, 'w').write(s)
    print("table updated:", len(rows), "rows")
else:
    print(table)
