#!/usr/bin/env python3
"""Re-runs the quick checks recorded in each seeded/<id>/meta.json against its patch (via
tools/try_wt.sh in a scratch worktree of /repo) and rewrites the results.
Also re-runs the author's own sensitivity patches (seeded/own/*.diff against the check named by
the file's prefix). usage: reverify_seeded.py [id ...]   (default: all)"""
import json, glob, os, subprocess, sys
only = set(sys.argv[1:])
WT = '/tmp/wt/reverify'
def run(patch, checks):
    # a scratch worktree of /repo with the patch applied; the harness is built against it
    # (tools/try_wt.sh), so /repo's own working tree is never touched
    if not os.path.isdir(WT):
        subprocess.run(['git', '-C', '/repo', 'worktree', 'add', '--detach', WT, 'HEAD'], capture_output=True, check=True)
    subprocess.run(['git', '-C', WT, 'checkout', '--', '.'], check=True)
    subprocess.run(['git', '-C', WT, 'apply', patch], check=True)
    out = subprocess.run(['/verif/tools/try_wt.sh', WT] + checks, capture_output=True, text=True).stdout
    results, cur = {}, None
    for line in out.splitlines():
        if line[:1] == 'C' and ' exit=' in line:
            cur = line.split()[0]
            results[cur] = {'exit': int(line.split('exit=')[1].split()[0]), 'line': line.strip()[:200]}
        elif cur and line.startswith('    '):
            results[cur]['first_violation'] = line.strip()[:400]
    return results, out
for mpath in sorted(glob.glob('/verif/seeded/*/meta.json')):
    sid = mpath.split('/')[-2]
    if only and sid not in only: continue
    meta = json.load(open(mpath))
    checks = sorted(meta.get('checks_run_against_it', {}).keys()) or [meta.get('breaks_property') or meta['property']]
    results, _ = run(f'/verif/seeded/{sid}/patch.diff', checks)
    meta['checks_run_against_it'] = results
    meta['detected_by'] = sorted(k for k, v in results.items() if v['exit'] == 1)
    meta['missed_by'] = sorted(k for k, v in results.items() if v['exit'] == 0)
    json.dump(meta, open(mpath, 'w'), indent=1)
    print(sid, 'detected by', meta['detected_by'], 'missed by', meta['missed_by'], flush=True)
if not only or 'own' in only:
    log = []
    for d in sorted(glob.glob('/verif/seeded/own/*.diff')):
        name = os.path.basename(d)
        prop = name.split('-')[0]
        results, out = run(d, [prop])
        r = results.get(prop, {})
        line = f"{name}: exit={r.get('exit')} {r.get('first_violation', r.get('line', ''))[:260]}"
        print(line, flush=True); log.append(line)
    open('/verif/seeded/own/results_quick_tier.log', 'w').write('\n'.join(log) + '\n')
if os.path.isdir(WT):
    subprocess.run(['git', '-C', '/repo', 'worktree', 'remove', '--force', WT])
