#!/usr/bin/env python3
"""Automated mutation sweep (a measurement of the checks' reach, not a check).

usage: mutsweep.py [--lanes N] [--per-file N] [--seed S] [--files f1,f2,...] [--out FILE] [--workers W]

Generates small syntactic mutants of the source files the claimed properties are anchored in, and for
each one builds the harness against a scratch worktree of /repo that carries the mutant and runs the
quick tiers of the checks that own that file.  Outcome per mutant:
  nocompile | caught:<ID> | hang:<ID> | survived(tests-pass) | survived(tests-kill)
Survivors that also pass the repository's own tests are the interesting ones: each is either a
behaviour-preserving edit (equivalent with respect to the properties) or a gap in the checks.
Everything lives under /tmp/ms and is removed with `mutsweep.py --clean`.  /repo is never modified."""
import argparse, json, os, random, re, shutil, subprocess, sys, threading, time, queue

REPO = '/repo'
ROOT = '/tmp/ms'
# file -> checks that own it (properties whose statement a change in that file can break)
FILES = {
    'patronus/src/mc/bmc.rs': ['C02', 'C03', 'C15'],
    'patronus/src/mc/encoding.rs': ['C04', 'C02', 'C10'],
    'patronus/src/mc/pdr.rs': ['C10', 'C03'],
    'patronus/src/mc/utils.rs': ['C03', 'C02'],
    'patronus/src/system/analysis.rs': ['C04', 'C02'],
    'patronus/src/sim/interpreter.rs': ['C07'],
    'patronus/src/sim/interface.rs': ['C07'],
    'patronus/src/expr/eval.rs': ['C07'],
    'patronus/src/expr/context.rs': ['C12'],
    'patronus/src/expr/transform.rs': ['C13', 'C04'],
    'patronus/src/expr/meta.rs': ['C13'],
    'patronus/src/smt/solver.rs': ['C15', 'C02', 'C10'],
    'patronus/src/smt/parser.rs': ['C14', 'C15'],
    'patronus/src/smt/serialize.rs': ['C04', 'C14', 'C02'],
    'patronus/src/btor2/parse.rs': ['C18'],
    'patronus-dse/src/value_summary.rs': ['C20'],
}
OPS = [
    (r' == ', ' != '), (r' != ', ' == '),
    (r' <= ', ' < '), (r' >= ', ' > '), (r' < ', ' <= '), (r' > ', ' >= '),
    (r' && ', ' || '), (r' \|\| ', ' && '),
    (r' \+ 1\b', ' + 0'), (r' - 1\b', ' - 0'), (r' \+ 1\b', ' + 2'),
    (r'\.\.=', '..'),
    (r'\bif !', 'if '), (r'\(!', '('), (r'\bif ([a-z_\.]+)\b(?! *(==|!=|<|>|\.))', r'if !\1'),
    (r'\btrue\b', 'false'), (r'\bfalse\b', 'true'),
    (r'\.rev\(\)', ''),
    (r'\bcontinue;', ''), (r'\bbreak;', ''),
    (r'\.is_some\(\)', '.is_none()'), (r'\.is_none\(\)', '.is_some()'),
    (r'\.is_empty\(\)', '.len() == 1'),
    (r'\.min\(', '.max('), (r'\.max\(', '.min('),
    (r'\.first\(\)', '.last()'), (r'\.last\(\)', '.first()'),
    (r'\[0\]', '[1]'), (r'\[1\]', '[0]'),
    (r'\.0\b', '.1'), (r'\.1\b', '.0'),
]
STMT_DEL = re.compile(r'^\s+(self\.|[a-z_]+\.)[a-z_\.]*[a-z_]+\(.*\);\s*$')


def gen_mutants(path):
    src = open(os.path.join(REPO, path)).read().split('\n')
    out = []
    in_tests = False
    for i, line in enumerate(src):
        s = line.strip()
        if re.match(r'(pub )?mod tests\b', s) or s.startswith('#[cfg(test)]'):
            in_tests = True
        if in_tests:
            continue
        if not s or s.startswith('//') or s.startswith('use ') or s.startswith('#[') or 'patronus_verif' in s:
            continue
        if re.search(r'\b(debug_assert|assert|assert_eq|assert_ne|println|eprintln|unreachable|todo|panic|write|writeln)!', s):
            continue
        code = line.split('//')[0]
        for k, (pat, rep) in enumerate(OPS):
            m = re.search(pat, code)
            if m:
                new = code[:m.start()] + m.expand(rep) + code[m.end():]
                if new != code:
                    out.append({'file': path, 'line': i + 1, 'op': f'{pat} -> {rep}', 'old': line, 'new': new})
        if STMT_DEL.match(code) and not s.startswith('let ') and not s.startswith('return'):
            out.append({'file': path, 'line': i + 1, 'op': 'delete-statement', 'old': line, 'new': ''})
    return out


def sh(cmd, cwd=None, env=None, timeout=None):
    e = dict(os.environ)
    e['CARGO_NET_OFFLINE'] = 'true'
    if env:
        e.update(env)
    try:
        p = subprocess.run(cmd, shell=True, cwd=cwd, env=e, capture_output=True, text=True, timeout=timeout)
        return p.returncode, p.stdout + p.stderr
    except subprocess.TimeoutExpired as ex:
        return 124, (ex.stdout or b'').decode(errors='replace') if isinstance(ex.stdout, bytes) else (ex.stdout or '')


def setup_lane(k):
    lane = f'{ROOT}/lane{k}'
    if not os.path.isdir(f'{lane}/repo'):
        os.makedirs(lane, exist_ok=True)
        rc, out = sh(f'git -C {REPO} worktree add -q --detach {lane}/repo HEAD')
        if rc != 0:
            raise SystemExit(out)
    sh(f'git -C {lane}/repo checkout -q -- .')
    os.makedirs(f'{lane}/out', exist_ok=True)
    shutil.copy('/verif/known_findings.json', f'{lane}/out/known_findings.json')
    sh(f'rsync -a --delete --exclude target /verif/sim/ {lane}/sim/')
    sh(f"sed -i 's#/repo/#{lane}/repo/#g' {lane}/sim/Cargo.toml")
    return lane


def run_mutant(lane, m, workers, jobs):
    repo = f'{lane}/repo'
    sh('git checkout -q -- .', cwd=repo)
    p = os.path.join(repo, m['file'])
    src = open(p).read().split('\n')
    assert src[m['line'] - 1] == m['old']
    src[m['line'] - 1] = m['new']
    open(p, 'w').write('\n'.join(src))
    res = dict(m)
    rc, out = sh(f'cargo build --release --offline -j {jobs}', cwd=f'{lane}/sim', env={'CARGO_TARGET_DIR': f'{lane}/target'}, timeout=900)
    if rc != 0:
        res['outcome'] = 'nocompile'
        return res
    res['checks'] = {}
    caught = None
    for cid in FILES[m['file']]:
        t0 = time.time()
        rc, out = sh(f'{lane}/target/release/patsim check {cid} --tier quick', cwd=lane,
                     env={'VERIF_DIR': f'{lane}/out', 'VERIF_WORKERS': str(workers), 'VERIF_RUN_LIMIT_S': '120'}, timeout=420)
        line = next((l for l in out.splitlines() if 'violation candidate' in l), '')[:260]
        res['checks'][cid] = {'exit': rc, 'wall': round(time.time() - t0, 1), 'first': line}
        if rc == 1:
            caught = caught or ('caught:' + cid)
            break
        if rc == 124:
            caught = caught or ('hang:' + cid)
            break
        if rc not in (0,):
            res['checks'][cid]['tail'] = out[-400:]
            caught = caught or (f'harness-exit-{rc}:' + cid)
            break
    if caught:
        res['outcome'] = caught
    else:
        crate = 'patronus-dse' if m['file'].startswith('patronus-dse') else 'patronus'
        rc, out = sh(f'cargo test -p {crate} --no-fail-fast --offline -j {jobs}', cwd=repo,
                     env={'CARGO_TARGET_DIR': f'{lane}/ttarget'}, timeout=1200)
        failed = [l for l in out.splitlines() if l.startswith('test ') and l.endswith('FAILED')
                  and 'smt::solver::tests::' not in l and not re.match(r'test test_', l)]
        passed = sum(1 for l in out.splitlines() if l.startswith('test ') and l.endswith('... ok'))
        res['tests_failed'] = failed[:5]
        res['tests_passed'] = passed
        res['outcome'] = 'survived(tests-kill)' if failed or passed == 0 else 'survived(tests-pass)'
    sh('git checkout -q -- .', cwd=repo)
    return res


def main():
    ap = argparse.ArgumentParser()
    ap.add_argument('--lanes', type=int, default=4)
    ap.add_argument('--per-file', type=int, default=30)
    ap.add_argument('--seed', type=int, default=1)
    ap.add_argument('--files', default='')
    ap.add_argument('--out', default='/tmp/ms/results.jsonl')
    ap.add_argument('--workers', type=int, default=4)
    ap.add_argument('--jobs', type=int, default=4)
    ap.add_argument('--clean', action='store_true')
    ap.add_argument('--list', action='store_true')
    a = ap.parse_args()
    if a.clean:
        for d in sorted(os.listdir(ROOT)) if os.path.isdir(ROOT) else []:
            if d.startswith('lane'):
                sh(f'git -C {REPO} worktree remove --force {ROOT}/{d}/repo')
        shutil.rmtree(ROOT, ignore_errors=True)
        sh(f'git -C {REPO} worktree prune')
        return
    files = [f for f in FILES if not a.files or any(x in f for x in a.files.split(','))]
    rng = random.Random(a.seed)
    todo = []
    for f in files:
        ms = gen_mutants(f)
        rng.shuffle(ms)
        todo += ms[:a.per_file]
        print(f'{f}: {len(ms)} candidate mutants, taking {min(len(ms), a.per_file)}', flush=True)
    if a.list:
        return
    done = set()
    if os.path.exists(a.out):
        for l in open(a.out):
            d = json.loads(l)
            done.add((d['file'], d['line'], d['op']))
    todo = [m for m in todo if (m['file'], m['line'], m['op']) not in done]
    rng.shuffle(todo)
    q = queue.Queue()
    for m in todo:
        q.put(m)
    lock = threading.Lock()
    os.makedirs(ROOT, exist_ok=True)

    def worker(k):
        lane = setup_lane(k)
        while True:
            try:
                m = q.get_nowait()
            except queue.Empty:
                return
            try:
                r = run_mutant(lane, m, a.workers, a.jobs)
            except Exception as ex:  # noqa
                r = dict(m); r['outcome'] = f'sweep-error: {ex}'
            with lock:
                with open(a.out, 'a') as fh:
                    fh.write(json.dumps(r) + '\n')
                print(f"[lane{k}] {r['file']}:{r['line']} {r['op']!r} -> {r['outcome']}", flush=True)

    ts = [threading.Thread(target=worker, args=(k,)) for k in range(a.lanes)]
    for t in ts: t.start()
    for t in ts: t.join()


if __name__ == '__main__':
    main()
