#!/bin/bash
# usage: try_wt.sh <dir with a (patched) checkout of cucapra/patronus> <ID> [<ID> ...]
# Builds a scratch copy of the harness against that checkout instead of /repo (so /repo's working
# tree is left alone) and runs the quick checks. Scratch: /tmp/simcopy (+ target dir), results
# and replays under /tmp/try_patch_out.
set -u
WT="$1"; shift
mkdir -p /tmp/try_patch_out /tmp/simcopy; cp /verif/known_findings.json /tmp/try_patch_out/
rsync -a --delete --exclude target /verif/sim/ /tmp/simcopy/sim/
sed -i "s#/repo/#$WT/#g" /tmp/simcopy/sim/Cargo.toml
if ! ( cd /tmp/simcopy/sim && CARGO_TARGET_DIR=/tmp/simcopy/target cargo build --release --offline > /tmp/simcopy/build.log 2>&1 ); then
  grep -E "^error" -A8 /tmp/simcopy/build.log | head -40
  echo "HARNESS-ERROR: building the harness against $WT failed; nothing was run"
  exit 2
fi
for id in "$@"; do
  out=$(VERIF_DIR=/tmp/try_patch_out /tmp/simcopy/target/release/patsim check "$id" 2>&1)
  code=$?
  line=$(echo "$out" | grep -E "^(VIOLATION|OK |HARNESS)" | head -1)
  detail=$(echo "$out" | grep -E "violation candidate" | head -1 | cut -c1-300)
  echo "$id exit=$code $line"
  [ -n "$detail" ] && echo "    $detail"
done
