#!/usr/bin/env python3
"""usage: make_mutant_prompt.py <property-id> <variant-letter>
Writes /tmp/wt/prompt_<id><variant>.txt for an independent sub-agent: only the property text, its
scratch worktree, and one-paragraph summaries of the changes other agents already produced for this
property (so that it looks for a different mechanism). Nothing from /verif's machinery is exposed."""
import json, os, sys, glob
pid, var = sys.argv[1], sys.argv[2]
# optional third argument: an extra paragraph of guidance for this round (HINT)
hint = sys.argv[3] if len(sys.argv) > 3 else ''
wid = f'{pid}{var}'
prop = next(json.loads(l) for l in open('/verif/properties.jsonl') if json.loads(l)['id'] == pid)
known = []
for m in sorted(glob.glob(f'/verif/seeded/{pid}?/meta.json')):
    d = json.load(open(m))
    known.append('  - ' + d.get('summary', '')[:420])
wt = f'/tmp/wt/{wid}'
txt = f"""You are working in a scratch git worktree of the Rust project cucapra/patronus at {wt} (a hardware-verification library: hash-consed bit-vector/array SMT IR, btor2 parser, expression simplifier, interpreter, SMT-based bounded model checker and PDR). Work ONLY inside {wt}. Never touch /repo or /verif, and do not read anything under /verif. The sandbox has no network; use `--offline` with cargo and set CARGO_TARGET_DIR={wt}/target for every cargo command. Use at most 4 parallel build jobs (`-j 4`) for every cargo command: other work shares this machine.

Here is a semantic property that the code base is supposed to satisfy:

  {pid} - {prop['title']}
  Statement: {prop['statement']}
  It must hold for: {prop['quantifier']['text']}

Your task: produce a realistic source change to the library (not to its tests) that BREAKS this property while the project still compiles and its existing test suite still passes, plus a demonstration that shows the breakage.

Requirements:
1. The change must need something specific to manifest: a particular sequence of operations, an unusual but legal input, a fault at a particular point, a particular answer chosen by the SMT solver, or two sites that cooperate. It must NOT be something that ordinary use or the existing tests expose at once. Prefer a change that is subtle in a different way from the obvious one: two cooperating sites that each look fine alone, a rarely taken branch, a boundary case (widths 1 / 64 / 65 / 128, empty collections, first/last iteration, zero steps), state carried from one call to the next, or behaviour that only shows with a particular order of events.
2. It must look like a plausible regression a developer could introduce (an off-by-one, a dropped check, a wrong operand order on a rare path, a cache keyed wrongly, an early return, a refactoring that is almost equivalent, ...). No comments that give it away, no dead code, no feature flags. Keep it small (typically 1-15 lines). Do not touch files named verif_seam.rs or verif_fuel.rs and do not add or remove `cfg(feature = "patronus_verif")` lines.
3. Existing tests: run `cargo test --workspace --no-fail-fast --offline -j 4` in {wt} before and after your change. 33 tests need an external SMT solver called bitwuzla, which is not installed, and fail before and after (all of `patronus::smt::solver::tests::*` and the `pdr` integration tests); every other test must pass before AND after. z3 and cvc5 binaries are installed: with the environment variable PATRONUS_TEST_SOLVER=z3 those solver tests can run too, and they must then also still pass with your change.
4. Demonstration: a new test file or small example program (put it under {wt}/MUTANT/demo/ and, if it has to live inside the cargo workspace to be runnable, also say exactly where to copy it) that FAILS (non-zero exit) with your change applied and PASSES (exit 0) on the unmodified code. If it needs a solver, use z3 or cvc5 (e.g. `patronus::smt::Z3.start(None)`), which are on PATH. Actually run it both ways and record the outputs.
"""
if known:
    txt += """
IMPORTANT - the following changes for this property are already known. Do NOT produce any of them or a close variant (same function and same idea); find a DIFFERENT way to break the property, preferably in a different function or file, or through a different mechanism:
""" + '\n'.join(known) + "\n"
if hint:
    txt += "\nFor this round: " + hint + "\n\n"
txt += f"""Also avoid `git stash` (the stash is shared between sibling worktrees); use `git apply -R MUTANT/patch.diff` / `git apply MUTANT/patch.diff` to switch between the clean and the patched tree.

5. Deliverables, all under {wt}/MUTANT/:
   - patch.diff : `git diff` of the library sources only (must apply with `git apply` to a clean checkout of the same commit);
   - demo/ : the demonstration plus a README with the exact commands;
   - meta.json : {{"property": "{pid}", "summary": "...", "what_it_needs_to_manifest": "...", "files_changed": [...], "demo_command": "<one shell command line that copies the demo into place if needed, runs it, and exits non-zero exactly when the property is broken>", "demo_fails_with_patch": true, "demo_passes_without_patch": true, "existing_tests_still_pass": true}}.
   Leave the worktree with the patch applied.

Report back briefly: what you changed, why the existing tests do not notice, and what it takes to trigger."""
os.makedirs('/tmp/wt', exist_ok=True)
open(f'/tmp/wt/prompt_{wid}.txt', 'w').write(txt)
print(f'/tmp/wt/prompt_{wid}.txt')
