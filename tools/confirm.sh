#!/bin/bash
# usage: confirm.sh <worktree>   -> prints CONFIRMED or REJECTED with reasons; writes <wt>/MUTANT/confirm.log
W="$1"; cd "$W" || exit 2
export CARGO_TARGET_DIR="$W/target" CARGO_NET_OFFLINE=true
LOG="$W/MUTANT/confirm.log"; : > "$LOG"
DEMO=$(python3 -c "import json;print(json.load(open('$W/MUTANT/meta.json'))['demo_command'])")
case "$DEMO" in *"exit \$rc"*) ;; *) DEMO="${DEMO%%; rm *}";; esac
# 0. patch applies to a clean checkout
git checkout -q -- . 2>/dev/null
if ! git apply --check MUTANT/patch.diff 2>>"$LOG"; then echo "REJECTED $W: patch does not apply to the clean tree"; exit 1; fi
# 1. demo on the clean tree must pass
bash -c "$DEMO" >>"$LOG" 2>&1; clean=$?
git clean -fdq -- patronus patronus-dse patronus-egraphs tools python 2>/dev/null; git checkout -q -- .
# 2. apply patch: existing tests
git apply MUTANT/patch.diff
cargo test --workspace --no-fail-fast --offline > "$W/MUTANT/confirm_tests.log" 2>&1
# (summed from the "test result:" lines: stderr of the reader's diagnostics can garble single "test ... ok" lines)
passed=$(grep "^test result" "$W/MUTANT/confirm_tests.log" | awk '{p+=$4} END {print p+0}')
failed_other=$(grep "^test .* \.\.\. FAILED$" "$W/MUTANT/confirm_tests.log" | grep -v "smt::solver::tests::" | grep -vc "^test test_")
failed=$(grep "^test result" "$W/MUTANT/confirm_tests.log" | awk '{f+=$6} END {print f+0}')
# 3. demo with patch must fail
bash -c "$DEMO" >>"$LOG" 2>&1; patched=$?
git clean -fdq -- patronus patronus-dse patronus-egraphs tools python 2>/dev/null
echo "clean_demo_exit=$clean patched_demo_exit=$patched tests_passed=$passed tests_failed=$failed failed_outside_solver_and_pdr=$failed_other" | tee -a "$LOG"
if [ "$clean" -eq 0 ] && [ "$patched" -ne 0 ] && [ "$passed" -ge 115 ] && [ "$failed" -eq 33 ]; then echo "CONFIRMED $W"; else echo "REJECTED $W"; fi
