#!/bin/bash
# Reach measurement (not a check): builds patsim with source-based coverage on the nightly
# toolchain, runs the quick tier of the given properties (default: all claimed), and prints line
# coverage of /repo's sources plus the uncovered lines of the files behind the claimed properties.
# Everything is written below $COV (default /tmp/patsim_cov) and can be deleted afterwards.
set -eu
COV="${COV:-/tmp/patsim_cov}"
IDS="${*:-C02 C03 C04 C07 C10 C12 C13 C14 C15 C18 C20}"
BIN=~/.rustup/toolchains/nightly-x86_64-unknown-linux-gnu/lib/rustlib/x86_64-unknown-linux-gnu/bin
mkdir -p "$COV/prof" "$COV/out"
cp /verif/known_findings.json "$COV/out/"
cd /verif/sim
RUSTFLAGS="-Cinstrument-coverage" CARGO_TARGET_DIR="$COV/target" cargo +nightly build --release --offline 2>&1 | tail -2
for id in $IDS; do
  LLVM_PROFILE_FILE="$COV/prof/$id-%p.profraw" VERIF_DIR="$COV/out" "$COV/target/release/patsim" check "$id" --tier quick | grep -E "^(OK|VIOLATION|HARNESS)" || true
done
"$BIN/llvm-profdata" merge -sparse "$COV"/prof/*.profraw -o "$COV/all.profdata"
"$BIN/llvm-cov" report "$COV/target/release/patsim" -instr-profile="$COV/all.profdata" \
   --ignore-filename-regex='(\.cargo|rustc|/verif/)' 2>/dev/null | tee "$COV/report.txt" | awk '{print $1, $(NF-3), $(NF-2), $(NF-1)}' | column -t
"$BIN/llvm-cov" show "$COV/target/release/patsim" -instr-profile="$COV/all.profdata" \
   --ignore-filename-regex='(\.cargo|rustc|/verif/)' --show-line-counts-or-regions 2>/dev/null > "$COV/show.txt"
echo "annotated source: $COV/show.txt"
