#!/bin/bash
# Determinism proof: every check, N seeds, run at worker counts 1, 4 and 16 and twice at 16, in
# separate processes; the merged event-log/observation digests and all counters must be identical.
# usage: ./determinism.sh [runs-per-check]   (exit 0 = deterministic)
set -u
DIR="$(cd "$(dirname "${BASH_SOURCE[0]}")" && pwd)"
RUNS="${1:-2000}"
OUT="$(mktemp -d)"
export VERIF_DIR="$OUT"      # evidence of these runs goes to the scratch directory
cp "$DIR/known_findings.json" "$OUT/" 2>/dev/null
BIN="$DIR/sim/target/release/patsim"
fail=0
for p in C02 C03 C04 C07 C10 C12 C13 C14 C15 C18 C20; do
  n=$RUNS
  case $p in C15) n=$((RUNS/10));; C18) n=$((RUNS/20));; C10) n=$((RUNS/2));; esac
  [ "$n" -lt 8 ] && n=8
  ref=""
  for cfg in 1 4 16 16b; do
    w=${cfg%b}
    VERIF_RUNS=$n VERIF_WORKERS=$w "$BIN" check $p >"$OUT/$p.$cfg.log" 2>&1
    h=$(python3 - "$OUT/evidence/$p.json" <<'PY'
import json,sys
d=json.load(open(sys.argv[1]))
c=d["coverage"]
print(c["event_log_hash"], c["evaluations"], c["distinct_nontrivial"], c["distinct_secondary"], c["simulated_steps"], json.dumps(c["counters"],sort_keys=True))
PY
)
    if [ -z "$ref" ]; then ref="$h"; elif [ "$h" != "$ref" ]; then echo "NONDETERMINISM: $p differs at workers=$cfg"; fail=1; fi
  done
  echo "$p: $n runs x {1,4,16,16} workers: digest ${ref%% *}"
done
rm -rf "$OUT"
exit $fail
