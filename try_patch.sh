#!/bin/bash
# usage: try_patch.sh <patch.diff> <ID> [<ID> ...]
# applies a patch to /repo's working tree, runs the quick checks of the given properties,
# prints one line per check, and restores /repo (git checkout -- .) in every case.
set -u
PATCH="$1"; shift
mkdir -p /tmp/try_patch_out; cp /verif/known_findings.json /tmp/try_patch_out/ 2>/dev/null
cd /repo || exit 2
if ! git diff --quiet; then echo "refusing: /repo has uncommitted changes"; exit 2; fi
if ! git apply --check "$PATCH" 2>/dev/null; then echo "patch does not apply: $PATCH"; exit 2; fi
git apply "$PATCH"
trap 'git -C /repo checkout -- . >/dev/null 2>&1' EXIT
for id in "$@"; do
  out=$(cd /verif && VERIF_DIR=/tmp/try_patch_out ./check "$id" 2>&1)
  code=$?
  line=$(echo "$out" | grep -E "^(VIOLATION|OK |HARNESS)" | head -1)
  detail=$(echo "$out" | grep -E "violation candidate" | head -1 | cut -c1-300)
  echo "$id exit=$code $line"
  [ -n "$detail" ] && echo "    $detail"
done
