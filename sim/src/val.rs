//! Independent value domain: bit-vectors up to 128 bits as u128, total arrays as default + map.
//! Implements SMT-LIB fixed-size bit-vector semantics directly from the standard's definitions.

use crate::rng::mask;
use std::collections::BTreeMap;

#[derive(Clone, Copy, Debug, PartialEq, Eq, Hash, PartialOrd, Ord)]
pub struct Bv {
    pub w: u32,
    pub v: u128,
}

impl Bv {
    pub fn new(w: u32, v: u128) -> Self {
        assert!(w >= 1 && w <= 128, "width {w} out of range");
        Bv { w, v: v & mask(w) }
    }
    pub fn bit(&self, i: u32) -> bool {
        (self.v >> i) & 1 == 1
    }
    pub fn is_true(&self) -> bool {
        self.v != 0
    }
    pub fn msb(&self) -> bool {
        self.bit(self.w - 1)
    }
    /// value as signed integer
    pub fn signed(&self) -> i128 {
        if self.w == 128 {
            self.v as i128
        } else if self.msb() {
            (self.v as i128) - (1i128 << self.w)
        } else {
            self.v as i128
        }
    }
    pub fn to_bin(&self) -> String {
        (0..self.w)
            .rev()
            .map(|i| if self.bit(i) { '1' } else { '0' })
            .collect()
    }
    pub fn from_bool(b: bool) -> Self {
        Bv { w: 1, v: b as u128 }
    }
}

/// binary bit-vector operators with SMT-LIB semantics
#[derive(Clone, Copy, Debug, PartialEq, Eq, Hash)]
pub enum BinOp {
    And,
    Or,
    Xor,
    Add,
    Sub,
    Mul,
    Udiv,
    Urem,
    Sdiv,
    Srem,
    Smod,
    Shl,
    Lshr,
    Ashr,
}

#[derive(Clone, Copy, Debug, PartialEq, Eq, Hash)]
pub enum CmpOp {
    Ult,
    Ule,
    Ugt,
    Uge,
    Slt,
    Sle,
    Sgt,
    Sge,
}

fn neg(w: u32, v: u128) -> u128 {
    (!v).wrapping_add(1) & mask(w)
}

pub fn bin_op(op: BinOp, a: Bv, b: Bv) -> Bv {
    assert_eq!(a.w, b.w, "{op:?}");
    let w = a.w;
    let m = mask(w);
    let v = match op {
        BinOp::And => a.v & b.v,
        BinOp::Or => a.v | b.v,
        BinOp::Xor => a.v ^ b.v,
        BinOp::Add => a.v.wrapping_add(b.v),
        BinOp::Sub => a.v.wrapping_sub(b.v),
        BinOp::Mul => a.v.wrapping_mul(b.v),
        BinOp::Udiv => {
            if b.v == 0 {
                m
            } else {
                a.v / b.v
            }
        }
        BinOp::Urem => {
            if b.v == 0 {
                a.v
            } else {
                a.v % b.v
            }
        }
        BinOp::Sdiv => {
            // standard definition via udiv on magnitudes
            let (na, nb) = (a.msb(), b.msb());
            let ua = if na { neg(w, a.v) } else { a.v };
            let ub = if nb { neg(w, b.v) } else { b.v };
            let q = bin_op(BinOp::Udiv, Bv::new(w, ua), Bv::new(w, ub)).v;
            if na != nb { neg(w, q) } else { q }
        }
        BinOp::Srem => {
            let (na, nb) = (a.msb(), b.msb());
            let ua = if na { neg(w, a.v) } else { a.v };
            let ub = if nb { neg(w, b.v) } else { b.v };
            let r = bin_op(BinOp::Urem, Bv::new(w, ua), Bv::new(w, ub)).v;
            if na { neg(w, r) } else { r }
        }
        BinOp::Smod => {
            let (na, nb) = (a.msb(), b.msb());
            let ua = if na { neg(w, a.v) } else { a.v };
            let ub = if nb { neg(w, b.v) } else { b.v };
            let u = bin_op(BinOp::Urem, Bv::new(w, ua), Bv::new(w, ub)).v;
            if u == 0 {
                u
            } else if !na && !nb {
                u
            } else if na && !nb {
                neg(w, u).wrapping_add(b.v)
            } else if !na && nb {
                u.wrapping_add(b.v)
            } else {
                neg(w, u)
            }
        }
        BinOp::Shl => {
            if b.v >= w as u128 {
                0
            } else {
                a.v << (b.v as u32)
            }
        }
        BinOp::Lshr => {
            if b.v >= w as u128 {
                0
            } else {
                a.v >> (b.v as u32)
            }
        }
        BinOp::Ashr => {
            let sh = if b.v >= w as u128 { w } else { b.v as u32 };
            if sh == 0 {
                a.v
            } else if a.msb() {
                let shifted = if sh >= w { 0 } else { a.v >> sh };
                // fill the top `sh` bits with ones
                let fill = if sh >= w { m } else { m & !(m >> sh) };
                shifted | fill
            } else if sh >= w {
                0
            } else {
                a.v >> sh
            }
        }
    };
    Bv::new(w, v)
}

pub fn cmp_op(op: CmpOp, a: Bv, b: Bv) -> bool {
    assert_eq!(a.w, b.w, "{op:?}");
    match op {
        CmpOp::Ult => a.v < b.v,
        CmpOp::Ule => a.v <= b.v,
        CmpOp::Ugt => a.v > b.v,
        CmpOp::Uge => a.v >= b.v,
        CmpOp::Slt => a.signed() < b.signed(),
        CmpOp::Sle => a.signed() <= b.signed(),
        CmpOp::Sgt => a.signed() > b.signed(),
        CmpOp::Sge => a.signed() >= b.signed(),
    }
}

pub fn bv_not(a: Bv) -> Bv {
    Bv::new(a.w, !a.v)
}
pub fn bv_neg(a: Bv) -> Bv {
    Bv::new(a.w, neg(a.w, a.v))
}
pub fn concat(hi: Bv, lo: Bv) -> Bv {
    Bv::new(hi.w + lo.w, (hi.v << lo.w) | lo.v)
}
pub fn extract(a: Bv, hi: u32, lo: u32) -> Bv {
    assert!(hi >= lo && hi < a.w);
    Bv::new(hi - lo + 1, a.v >> lo)
}
pub fn zext(a: Bv, by: u32) -> Bv {
    Bv::new(a.w + by, a.v)
}
pub fn sext(a: Bv, by: u32) -> Bv {
    let w = a.w + by;
    if a.msb() {
        Bv::new(w, a.v | (mask(w) & !mask(a.w)))
    } else {
        Bv::new(w, a.v)
    }
}

/// A total array value. Equality is semantic (same value at every index).
#[derive(Clone, Debug)]
pub struct Arr {
    pub iw: u32,
    pub dw: u32,
    pub default: u128,
    pub map: BTreeMap<u128, u128>,
}

impl PartialEq for Arr {
    fn eq(&self, other: &Self) -> bool {
        if self.iw != other.iw || self.dw != other.dw {
            return false;
        }
        let mut covered = 0u128;
        for k in self.map.keys().chain(other.map.keys()) {
            if self.select(*k) != other.select(*k) {
                return false;
            }
        }
        for k in self.map.keys() {
            covered += 1;
            let _ = k;
        }
        for k in other.map.keys() {
            if !self.map.contains_key(k) {
                covered += 1;
            }
        }
        let all = self.iw < 127 && covered == (1u128 << self.iw);
        all || self.default == other.default
    }
}
impl Eq for Arr {}

impl Arr {
    pub fn constant(iw: u32, dw: u32, default: u128) -> Self {
        Arr {
            iw,
            dw,
            default: default & mask(dw),
            map: BTreeMap::new(),
        }
    }
    pub fn select(&self, idx: u128) -> Bv {
        let idx = idx & mask(self.iw);
        Bv::new(self.dw, *self.map.get(&idx).unwrap_or(&self.default))
    }
    pub fn store(&self, idx: u128, data: u128) -> Self {
        let mut out = self.clone();
        let idx = idx & mask(self.iw);
        let data = data & mask(self.dw);
        if data == out.default {
            out.map.remove(&idx);
        } else {
            out.map.insert(idx, data);
        }
        out.normalise();
        out
    }
    /// if every index has an explicit entry the default is unobservable: canonicalise it
    fn normalise(&mut self) {
        if self.iw < 64 && self.map.len() as u128 == (1u128 << self.iw) {
            // pick the value at index 0 as default
            let d = *self.map.get(&0).unwrap();
            self.default = d;
            self.map.retain(|_, v| *v != d);
        }
    }
    pub fn from_elements(iw: u32, dw: u32, elems: &[u128]) -> Self {
        assert_eq!(elems.len() as u128, 1u128 << iw);
        let mut a = Arr::constant(iw, dw, elems[0]);
        for (i, e) in elems.iter().enumerate() {
            a = a.store(i as u128, *e);
        }
        a
    }
    pub fn elements(&self) -> Vec<u128> {
        assert!(self.iw <= 16);
        (0..(1u128 << self.iw)).map(|i| self.select(i).v).collect()
    }
}

#[derive(Clone, Debug, PartialEq, Eq)]
pub enum Val {
    B(Bv),
    A(Arr),
}

impl Val {
    pub fn bv(&self) -> Bv {
        match self {
            Val::B(b) => *b,
            Val::A(_) => panic!("expected bit-vector value, got array"),
        }
    }
    pub fn arr(&self) -> &Arr {
        match self {
            Val::A(a) => a,
            Val::B(_) => panic!("expected array value, got bit-vector"),
        }
    }
    pub fn show(&self) -> String {
        match self {
            Val::B(b) => format!("{}'b{}", b.w, b.to_bin()),
            Val::A(a) => {
                let mut s = format!("[{}->{}: default={:#x}", a.iw, a.dw, a.default);
                for (k, v) in &a.map {
                    s.push_str(&format!(", {k:#x}:{v:#x}"));
                }
                s.push(']');
                s
            }
        }
    }
}

#[cfg(test)]
mod tests {
    use super::*;
    #[test]
    fn smod_examples() {
        // -7 smod 3 = 2 ; 7 smod -3 = -2
        let w = 4;
        let r = bin_op(BinOp::Smod, Bv::new(w, neg(w, 7)), Bv::new(w, 3));
        assert_eq!(r.v, 2);
        let r = bin_op(BinOp::Smod, Bv::new(w, 7), Bv::new(w, neg(w, 3)));
        assert_eq!(r.signed(), -2);
        let r = bin_op(BinOp::Srem, Bv::new(w, neg(w, 7)), Bv::new(w, 3));
        assert_eq!(r.signed(), -1);
        let r = bin_op(BinOp::Sdiv, Bv::new(w, neg(w, 7)), Bv::new(w, 3));
        assert_eq!(r.signed(), -2);
        let r = bin_op(BinOp::Ashr, Bv::new(w, 0b1000), Bv::new(w, 1));
        assert_eq!(r.v, 0b1100);
        let r = bin_op(BinOp::Ashr, Bv::new(w, 0b1000), Bv::new(w, 9));
        assert_eq!(r.v, 0b1111);
    }
}
