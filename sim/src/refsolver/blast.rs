//! Bit-blasting of terms into the CDCL solver's clause database (Tseitin encoding).

use super::sat::{Lit, Sat};
use super::term::*;
use crate::val::*;
use rustc_hash::FxHashMap;

#[derive(Clone, Debug)]
pub enum Repr {
    /// Bool (1 literal) or bit-vector (LSB first)
    Bits(Vec<Lit>),
    /// array: one bit-vector per index value
    Arr(Vec<Vec<Lit>>),
}

impl Repr {
    fn bits(&self) -> &Vec<Lit> {
        match self {
            Repr::Bits(b) => b,
            Repr::Arr(_) => panic!("expected bits"),
        }
    }
    fn arr(&self) -> &Vec<Vec<Lit>> {
        match self {
            Repr::Arr(a) => a,
            Repr::Bits(_) => panic!("expected array"),
        }
    }
}

pub const MAX_BLAST_INDEX_WIDTH: u32 = 6;

pub struct Blaster {
    pub sat: Sat,
    cache: FxHashMap<TermId, Repr>,
    /// literal that is constant true
    t: Lit,
    /// bits of declared symbols that have been blasted
    pub sym_bits: FxHashMap<u32, Repr>,
}

impl Default for Blaster {
    fn default() -> Self {
        Self::new()
    }
}

impl Blaster {
    pub fn new() -> Self {
        let mut sat = Sat::new();
        let t = sat.new_var();
        sat.add_clause(&[t]);
        Blaster {
            sat,
            cache: FxHashMap::default(),
            t,
            sym_bits: FxHashMap::default(),
        }
    }

    fn f(&self) -> Lit {
        -self.t
    }
    fn konst(&self, b: bool) -> Lit {
        if b { self.t } else { -self.t }
    }
    fn is_t(&self, l: Lit) -> bool {
        l == self.t
    }
    fn is_f(&self, l: Lit) -> bool {
        l == -self.t
    }

    fn and2(&mut self, a: Lit, b: Lit) -> Lit {
        if self.is_f(a) || self.is_f(b) || a == -b {
            return self.f();
        }
        if self.is_t(a) {
            return b;
        }
        if self.is_t(b) || a == b {
            return a;
        }
        let o = self.sat.new_var();
        self.sat.add_clause(&[-o, a]);
        self.sat.add_clause(&[-o, b]);
        self.sat.add_clause(&[o, -a, -b]);
        o
    }
    fn or2(&mut self, a: Lit, b: Lit) -> Lit {
        -self.and2(-a, -b)
    }
    fn xor2(&mut self, a: Lit, b: Lit) -> Lit {
        if self.is_f(a) {
            return b;
        }
        if self.is_f(b) {
            return a;
        }
        if self.is_t(a) {
            return -b;
        }
        if self.is_t(b) {
            return -a;
        }
        if a == b {
            return self.f();
        }
        if a == -b {
            return self.t;
        }
        let o = self.sat.new_var();
        self.sat.add_clause(&[-o, a, b]);
        self.sat.add_clause(&[-o, -a, -b]);
        self.sat.add_clause(&[o, -a, b]);
        self.sat.add_clause(&[o, a, -b]);
        o
    }
    fn mux(&mut self, c: Lit, t: Lit, e: Lit) -> Lit {
        if self.is_t(c) {
            return t;
        }
        if self.is_f(c) {
            return e;
        }
        if t == e {
            return t;
        }
        if self.is_t(t) && self.is_f(e) {
            return c;
        }
        if self.is_f(t) && self.is_t(e) {
            return -c;
        }
        let o = self.sat.new_var();
        self.sat.add_clause(&[-c, -t, o]);
        self.sat.add_clause(&[-c, t, -o]);
        self.sat.add_clause(&[c, -e, o]);
        self.sat.add_clause(&[c, e, -o]);
        o
    }
    fn and_all(&mut self, ls: &[Lit]) -> Lit {
        let mut acc = self.t;
        for l in ls {
            acc = self.and2(acc, *l);
        }
        acc
    }
    fn or_all(&mut self, ls: &[Lit]) -> Lit {
        let mut acc = self.f();
        for l in ls {
            acc = self.or2(acc, *l);
        }
        acc
    }
    fn mux_vec(&mut self, c: Lit, t: &[Lit], e: &[Lit]) -> Vec<Lit> {
        t.iter().zip(e.iter()).map(|(a, b)| self.mux(c, *a, *b)).collect()
    }
    fn eq_vec(&mut self, a: &[Lit], b: &[Lit]) -> Lit {
        let xs: Vec<Lit> = a.iter().zip(b.iter()).map(|(x, y)| -self.xor2(*x, *y)).collect();
        self.and_all(&xs)
    }
    /// returns (sum bits, carry out)
    fn add_vec(&mut self, a: &[Lit], b: &[Lit], cin: Lit) -> (Vec<Lit>, Lit) {
        let mut c = cin;
        let mut out = Vec::with_capacity(a.len());
        for (x, y) in a.iter().zip(b.iter()) {
            let xy = self.xor2(*x, *y);
            out.push(self.xor2(xy, c));
            // carry = (x & y) | (c & (x ^ y))
            let g = self.and2(*x, *y);
            let p = self.and2(c, xy);
            c = self.or2(g, p);
        }
        (out, c)
    }
    fn neg_vec(&mut self, a: &[Lit]) -> Vec<Lit> {
        let na: Vec<Lit> = a.iter().map(|l| -*l).collect();
        let zeros = vec![self.f(); a.len()];
        self.add_vec(&na, &zeros, self.t).0
    }
    fn sub_vec(&mut self, a: &[Lit], b: &[Lit]) -> Vec<Lit> {
        let nb: Vec<Lit> = b.iter().map(|l| -*l).collect();
        self.add_vec(a, &nb, self.t).0
    }
    /// a < b unsigned
    fn ult_vec(&mut self, a: &[Lit], b: &[Lit]) -> Lit {
        let mut lt = self.f();
        for (x, y) in a.iter().zip(b.iter()) {
            // from LSB to MSB: higher bits dominate
            let x_lt_y = self.and2(-*x, *y);
            let same = -self.xor2(*x, *y);
            let keep = self.and2(same, lt);
            lt = self.or2(x_lt_y, keep);
        }
        lt
    }
    fn slt_vec(&mut self, a: &[Lit], b: &[Lit]) -> Lit {
        let mut a2 = a.to_vec();
        let mut b2 = b.to_vec();
        let n = a.len();
        a2[n - 1] = -a2[n - 1];
        b2[n - 1] = -b2[n - 1];
        self.ult_vec(&a2, &b2)
    }
    fn mul_vec(&mut self, a: &[Lit], b: &[Lit]) -> Vec<Lit> {
        let w = a.len();
        let mut acc = vec![self.f(); w];
        for i in 0..w {
            // partial product: (a << i) & b[i]
            let mut pp = vec![self.f(); w];
            for j in i..w {
                pp[j] = self.and2(a[j - i], b[i]);
            }
            acc = self.add_vec(&acc, &pp, self.f()).0;
        }
        acc
    }
    /// restoring division; by-zero yields q = all ones, r = a (as the standard requires)
    fn udivrem_vec(&mut self, a: &[Lit], d: &[Lit]) -> (Vec<Lit>, Vec<Lit>) {
        let w = a.len();
        let mut r: Vec<Lit> = vec![self.f(); w + 1];
        let mut dx = d.to_vec();
        dx.push(self.f());
        let mut q = vec![self.f(); w];
        for i in (0..w).rev() {
            // r = (r << 1) | a[i]
            let mut r2 = Vec::with_capacity(w + 1);
            r2.push(a[i]);
            r2.extend_from_slice(&r[..w]);
            // ge = r2 >= dx
            let lt = self.ult_vec(&r2, &dx);
            let ge = -lt;
            let diff = self.sub_vec(&r2, &dx);
            r = self.mux_vec(ge, &diff, &r2);
            q[i] = ge;
        }
        r.truncate(w);
        (q, r)
    }
    fn is_zero(&mut self, a: &[Lit]) -> Lit {
        let na: Vec<Lit> = a.iter().map(|l| -*l).collect();
        self.and_all(&na)
    }
    fn shift_vec(&mut self, a: &[Lit], b: &[Lit], op: BinOp) -> Vec<Lit> {
        let w = a.len();
        let fill = match op {
            BinOp::Ashr => a[w - 1],
            _ => self.f(),
        };
        let mut cur = a.to_vec();
        let mut overflow_bits = vec![];
        for (s, bit) in b.iter().enumerate() {
            if s < 63 && (1usize << s) < w {
                let sh = 1usize << s;
                let mut shifted = vec![fill; w];
                match op {
                    BinOp::Shl => {
                        for j in sh..w {
                            shifted[j] = cur[j - sh];
                        }
                    }
                    _ => {
                        for j in 0..w - sh {
                            shifted[j] = cur[j + sh];
                        }
                    }
                }
                cur = self.mux_vec(*bit, &shifted, &cur);
            } else {
                overflow_bits.push(*bit);
            }
        }
        let ov = self.or_all(&overflow_bits);
        let all_fill = vec![fill; w];
        self.mux_vec(ov, &all_fill, &cur)
    }

    fn fresh(&mut self, n: usize) -> Vec<Lit> {
        (0..n).map(|_| self.sat.new_var()).collect()
    }

    fn fresh_repr(&mut self, sort: Sort) -> Result<Repr, String> {
        match sort {
            Sort::Bool => Ok(Repr::Bits(self.fresh(1))),
            Sort::Bv(w) => Ok(Repr::Bits(self.fresh(w as usize))),
            Sort::Arr(i, d) => {
                if i.width() > MAX_BLAST_INDEX_WIDTH {
                    return Err(format!(
                        "STUB-LIMIT: array index width {} exceeds {}",
                        i.width(),
                        MAX_BLAST_INDEX_WIDTH
                    ));
                }
                let n = 1usize << i.width();
                Ok(Repr::Arr(
                    (0..n).map(|_| self.fresh(d.width() as usize)).collect(),
                ))
            }
        }
    }

    /// blasts a term (and everything below it); iterative to survive very deep DAGs
    pub fn blast(&mut self, terms: &Terms, root: TermId) -> Result<Repr, String> {
        let mut stack = vec![root];
        while let Some(&t) = stack.last() {
            if self.cache.contains_key(&t) {
                stack.pop();
                continue;
            }
            let term = &terms.terms[t as usize];
            let mut ready = true;
            for a in &term.args {
                if !self.cache.contains_key(a) {
                    ready = false;
                    stack.push(*a);
                }
            }
            if !ready {
                continue;
            }
            stack.pop();
            let r = self.blast_node(terms, term)?;
            self.cache.insert(t, r);
        }
        Ok(self.cache[&root].clone())
    }

    pub fn bool_lit(&mut self, terms: &Terms, t: TermId) -> Result<Lit, String> {
        debug_assert_eq!(terms.sort(t), Sort::Bool);
        Ok(self.blast(terms, t)?.bits()[0])
    }

    fn blast_node(&mut self, _terms: &Terms, term: &Term) -> Result<Repr, String> {
        let arg = |this: &Self, i: usize| -> Repr { this.cache[&term.args[i]].clone() };
        let bits = |v: Vec<Lit>| Repr::Bits(v);
        Ok(match term.op {
            Op::Var(id) => {
                if let Some(r) = self.sym_bits.get(&id) {
                    r.clone()
                } else {
                    let r = self.fresh_repr(term.sort)?;
                    self.sym_bits.insert(id, r.clone());
                    r
                }
            }
            Op::True => bits(vec![self.t]),
            Op::False => bits(vec![self.f()]),
            Op::BvLit(w, v) => bits((0..w).map(|i| self.konst((v >> i) & 1 == 1)).collect()),
            Op::Not => bits(vec![-arg(self, 0).bits()[0]]),
            Op::And => {
                let (a, b) = (arg(self, 0).bits()[0], arg(self, 1).bits()[0]);
                bits(vec![self.and2(a, b)])
            }
            Op::Or => {
                let (a, b) = (arg(self, 0).bits()[0], arg(self, 1).bits()[0]);
                bits(vec![self.or2(a, b)])
            }
            Op::Xor => {
                let (a, b) = (arg(self, 0).bits()[0], arg(self, 1).bits()[0]);
                bits(vec![self.xor2(a, b)])
            }
            Op::Implies => {
                let (a, b) = (arg(self, 0).bits()[0], arg(self, 1).bits()[0]);
                bits(vec![self.or2(-a, b)])
            }
            Op::Eq => match (arg(self, 0), arg(self, 1)) {
                (Repr::Bits(a), Repr::Bits(b)) => bits(vec![self.eq_vec(&a, &b)]),
                (Repr::Arr(a), Repr::Arr(b)) => {
                    let mut eqs = vec![];
                    for (x, y) in a.iter().zip(b.iter()) {
                        eqs.push(self.eq_vec(x, y));
                    }
                    bits(vec![self.and_all(&eqs)])
                }
                _ => unreachable!("sort checker guarantees equal sorts"),
            },
            Op::Ite => {
                let c = arg(self, 0).bits()[0];
                match (arg(self, 1), arg(self, 2)) {
                    (Repr::Bits(a), Repr::Bits(b)) => bits(self.mux_vec(c, &a, &b)),
                    (Repr::Arr(a), Repr::Arr(b)) => Repr::Arr(
                        a.iter()
                            .zip(b.iter())
                            .map(|(x, y)| self.mux_vec(c, x, y))
                            .collect(),
                    ),
                    _ => unreachable!(),
                }
            }
            Op::BvNot => bits(arg(self, 0).bits().iter().map(|l| -*l).collect()),
            Op::BvNeg => {
                let a = arg(self, 0);
                bits(self.neg_vec(a.bits()))
            }
            Op::Bin(op) => {
                let a = arg(self, 0).bits().clone();
                let b = arg(self, 1).bits().clone();
                let w = a.len();
                bits(match op {
                    BinOp::And => a.iter().zip(b.iter()).map(|(x, y)| self.and2(*x, *y)).collect(),
                    BinOp::Or => a.iter().zip(b.iter()).map(|(x, y)| self.or2(*x, *y)).collect(),
                    BinOp::Xor => a.iter().zip(b.iter()).map(|(x, y)| self.xor2(*x, *y)).collect(),
                    BinOp::Add => self.add_vec(&a, &b, self.f()).0,
                    BinOp::Sub => self.sub_vec(&a, &b),
                    BinOp::Mul => self.mul_vec(&a, &b),
                    BinOp::Udiv => self.udivrem_vec(&a, &b).0,
                    BinOp::Urem => self.udivrem_vec(&a, &b).1,
                    BinOp::Sdiv | BinOp::Srem | BinOp::Smod => {
                        let (sa, sb) = (a[w - 1], b[w - 1]);
                        let na = self.neg_vec(&a);
                        let nb = self.neg_vec(&b);
                        let ua = self.mux_vec(sa, &na, &a);
                        let ub = self.mux_vec(sb, &nb, &b);
                        let (q, r) = self.udivrem_vec(&ua, &ub);
                        match op {
                            BinOp::Sdiv => {
                                let nq = self.neg_vec(&q);
                                let diff = self.xor2(sa, sb);
                                self.mux_vec(diff, &nq, &q)
                            }
                            BinOp::Srem => {
                                let nr = self.neg_vec(&r);
                                self.mux_vec(sa, &nr, &r)
                            }
                            _ => {
                                // smod, following the standard's definition
                                let rz = self.is_zero(&r);
                                let nr = self.neg_vec(&r);
                                let nr_plus_b = self.add_vec(&nr, &b, self.f()).0;
                                let r_plus_b = self.add_vec(&r, &b, self.f()).0;
                                // cases on (sa, sb): (0,0) r ; (1,0) -r + b ; (0,1) r + b ; (1,1) -r
                                let when_sa = self.mux_vec(sb, &nr, &nr_plus_b);
                                let when_not_sa = self.mux_vec(sb, &r_plus_b, &r);
                                let pick = self.mux_vec(sa, &when_sa, &when_not_sa);
                                self.mux_vec(rz, &r, &pick)
                            }
                        }
                    }
                    BinOp::Shl | BinOp::Lshr | BinOp::Ashr => self.shift_vec(&a, &b, op),
                })
            }
            Op::Cmp(op) => {
                let a = arg(self, 0).bits().clone();
                let b = arg(self, 1).bits().clone();
                bits(vec![match op {
                    CmpOp::Ult => self.ult_vec(&a, &b),
                    CmpOp::Ugt => self.ult_vec(&b, &a),
                    CmpOp::Ule => -self.ult_vec(&b, &a),
                    CmpOp::Uge => -self.ult_vec(&a, &b),
                    CmpOp::Slt => self.slt_vec(&a, &b),
                    CmpOp::Sgt => self.slt_vec(&b, &a),
                    CmpOp::Sle => -self.slt_vec(&b, &a),
                    CmpOp::Sge => -self.slt_vec(&a, &b),
                }])
            }
            Op::Concat => {
                let hi = arg(self, 0).bits().clone();
                let mut lo = arg(self, 1).bits().clone();
                lo.extend(hi);
                bits(lo)
            }
            Op::Extract(hi, lo) => {
                bits(arg(self, 0).bits()[lo as usize..=hi as usize].to_vec())
            }
            Op::ZeroExt(k) => {
                let mut a = arg(self, 0).bits().clone();
                a.extend(std::iter::repeat_n(self.f(), k as usize));
                bits(a)
            }
            Op::SignExt(k) => {
                let mut a = arg(self, 0).bits().clone();
                let s = *a.last().unwrap();
                a.extend(std::iter::repeat_n(s, k as usize));
                bits(a)
            }
            Op::Select => {
                let arr = arg(self, 0).arr().clone();
                let idx = arg(self, 1).bits().clone();
                // mux tree
                let mut level: Vec<Vec<Lit>> = arr;
                for bit in idx.iter() {
                    let mut next = Vec::with_capacity(level.len() / 2);
                    for pair in level.chunks(2) {
                        next.push(self.mux_vec(*bit, &pair[1], &pair[0]));
                    }
                    level = next;
                }
                debug_assert_eq!(level.len(), 1);
                bits(level.pop().unwrap())
            }
            Op::Store => {
                let arr = arg(self, 0).arr().clone();
                let idx = arg(self, 1).bits().clone();
                let data = arg(self, 2).bits().clone();
                let mut out = Vec::with_capacity(arr.len());
                for (j, elem) in arr.iter().enumerate() {
                    let jbits: Vec<Lit> =
                        (0..idx.len()).map(|k| self.konst((j >> k) & 1 == 1)).collect();
                    let hit = self.eq_vec(&idx, &jbits);
                    out.push(self.mux_vec(hit, &data, elem));
                }
                Repr::Arr(out)
            }
            Op::ConstArr(i) => {
                if i.width() > MAX_BLAST_INDEX_WIDTH {
                    return Err(format!(
                        "STUB-LIMIT: array index width {} exceeds {}",
                        i.width(),
                        MAX_BLAST_INDEX_WIDTH
                    ));
                }
                let d = arg(self, 0).bits().clone();
                Repr::Arr(vec![d; 1usize << i.width()])
            }
        })
    }

    /// value of a declared symbol in the current SAT model (None if it was never blasted)
    pub fn model_of(&self, id: u32, sort: Sort) -> Option<Val> {
        let r = self.sym_bits.get(&id)?;
        let bits_to_u128 = |bs: &Vec<Lit>| -> u128 {
            let mut v = 0u128;
            for (i, l) in bs.iter().enumerate() {
                if self.sat.model_value(*l) {
                    v |= 1u128 << i;
                }
            }
            v
        };
        Some(match (r, sort) {
            (Repr::Bits(b), Sort::Bool) => Val::B(Bv::new(1, bits_to_u128(b))),
            (Repr::Bits(b), Sort::Bv(w)) => Val::B(Bv::new(w, bits_to_u128(b))),
            (Repr::Arr(a), Sort::Arr(i, d)) => {
                let elems: Vec<u128> = a.iter().map(bits_to_u128).collect();
                Val::A(Arr::from_elements(i.width(), d.width(), &elems))
            }
            _ => unreachable!(),
        })
    }
}
