//! Sorts, hash-consed terms, strict sort checking (SMT-LIB 2.6 Core, FixedSizeBitVectors,
//! ArraysEx + the `(as const …)` extension) and an evaluator.

use super::sexp::Sexp;
use crate::rng::mask;
use crate::val::*;
use rustc_hash::FxHashMap;

#[derive(Clone, Copy, PartialEq, Eq, Hash, Debug)]
pub enum ESort {
    Bool,
    Bv(u32),
}

impl ESort {
    pub fn width(&self) -> u32 {
        match self {
            ESort::Bool => 1,
            ESort::Bv(w) => *w,
        }
    }
}

#[derive(Clone, Copy, PartialEq, Eq, Hash, Debug)]
pub enum Sort {
    Bool,
    Bv(u32),
    Arr(ESort, ESort),
}

impl Sort {
    pub fn show(&self) -> String {
        match self {
            Sort::Bool => "Bool".into(),
            Sort::Bv(w) => format!("(_ BitVec {w})"),
            Sort::Arr(i, d) => format!(
                "(Array {} {})",
                Sort::from(*i).show(),
                Sort::from(*d).show()
            ),
        }
    }
    pub fn elem(&self) -> Option<ESort> {
        match self {
            Sort::Bool => Some(ESort::Bool),
            Sort::Bv(w) => Some(ESort::Bv(*w)),
            Sort::Arr(..) => None,
        }
    }
    /// number of value bits for scalar sorts
    pub fn width(&self) -> u32 {
        match self {
            Sort::Bool => 1,
            Sort::Bv(w) => *w,
            Sort::Arr(..) => panic!("array has no width"),
        }
    }
}

impl From<ESort> for Sort {
    fn from(e: ESort) -> Self {
        match e {
            ESort::Bool => Sort::Bool,
            ESort::Bv(w) => Sort::Bv(w),
        }
    }
}

pub type TermId = u32;

#[derive(Clone, Copy, PartialEq, Eq, Hash, Debug)]
pub enum Op {
    Var(u32),
    True,
    False,
    BvLit(u32, u128),
    Not,
    And,
    Or,
    Xor,
    Implies,
    Eq,
    Ite,
    BvNot,
    BvNeg,
    Bin(BinOp),
    Cmp(CmpOp),
    Concat,
    Extract(u32, u32),
    ZeroExt(u32),
    SignExt(u32),
    Select,
    Store,
    ConstArr(ESort),
}

#[derive(Clone, Debug)]
pub struct Term {
    pub op: Op,
    pub args: Vec<TermId>,
    pub sort: Sort,
}

#[derive(Clone, Debug)]
pub struct SymInfo {
    pub name: String,
    pub sort: Sort,
    /// `Some(term)` for `define-fun`, `None` for declared constants
    pub def: Option<TermId>,
    /// the `Var` term for declared constants (also allocated for defined ones, unused)
    pub var_term: TermId,
    pub level: usize,
}

#[derive(Default)]
pub struct Terms {
    pub terms: Vec<Term>,
    table: FxHashMap<(Op, Vec<TermId>), TermId>,
    /// all symbols ever created (ids are stable); `visible` says which are in scope
    pub syms: Vec<SymInfo>,
    pub visible: FxHashMap<String, u32>,
    /// names introduced per push level
    pub scopes: Vec<Vec<String>>,
}

pub type TResult<T> = Result<T, String>;

pub const MAX_W: u32 = 128;

impl Terms {
    pub fn new() -> Self {
        let mut t = Terms::default();
        t.scopes.push(vec![]);
        t
    }

    pub fn mk(&mut self, op: Op, args: Vec<TermId>, sort: Sort) -> TermId {
        let key = (op, args);
        if let Some(id) = self.table.get(&key) {
            return *id;
        }
        let id = self.terms.len() as TermId;
        self.terms.push(Term {
            op: key.0,
            args: key.1.clone(),
            sort,
        });
        self.table.insert(key, id);
        id
    }

    pub fn sort(&self, t: TermId) -> Sort {
        self.terms[t as usize].sort
    }

    pub fn mk_true(&mut self) -> TermId {
        self.mk(Op::True, vec![], Sort::Bool)
    }
    pub fn mk_false(&mut self) -> TermId {
        self.mk(Op::False, vec![], Sort::Bool)
    }
    pub fn mk_not(&mut self, a: TermId) -> TermId {
        self.mk(Op::Not, vec![a], Sort::Bool)
    }
    pub fn mk_and(&mut self, a: TermId, b: TermId) -> TermId {
        self.mk(Op::And, vec![a, b], Sort::Bool)
    }

    // ---------------------------------------------------------------------------------------
    // symbols and scopes
    // ---------------------------------------------------------------------------------------
    pub fn push(&mut self) {
        self.scopes.push(vec![]);
    }

    pub fn pop(&mut self) -> bool {
        if self.scopes.len() <= 1 {
            return false;
        }
        for name in self.scopes.pop().unwrap() {
            self.visible.remove(&name);
        }
        true
    }

    pub fn level(&self) -> usize {
        self.scopes.len() - 1
    }

    fn reserved(name: &str) -> bool {
        matches!(
            name,
            "true"
                | "false"
                | "not"
                | "and"
                | "or"
                | "xor"
                | "=>"
                | "="
                | "distinct"
                | "ite"
                | "let"
                | "select"
                | "store"
                | "concat"
                | "_"
                | "as"
                | "!"
                | "forall"
                | "exists"
                | "par"
                | "Bool"
                | "BitVec"
                | "Array"
        ) || name.starts_with("bv")
            && (name.len() > 2)
            && (BV_FUNS.contains(&name) || name[2..].bytes().all(|c| c.is_ascii_digit()))
    }

    pub fn declare(&mut self, name: &str, sort: Sort, def: Option<TermId>) -> TResult<u32> {
        if name.is_empty() {
            return Err("empty symbol".into());
        }
        if Self::reserved(name) {
            return Err(format!("invalid declaration, `{name}` is a reserved/builtin symbol"));
        }
        if self.visible.contains_key(name) {
            return Err(format!(
                "invalid declaration, constant '{name}' (with the given signature) already declared"
            ));
        }
        let id = self.syms.len() as u32;
        let var_term = self.mk(Op::Var(id), vec![], sort);
        self.syms.push(SymInfo {
            name: name.to_string(),
            sort,
            def,
            var_term,
            level: self.level(),
        });
        self.visible.insert(name.to_string(), id);
        self.scopes.last_mut().unwrap().push(name.to_string());
        Ok(id)
    }

    pub fn lookup(&self, name: &str) -> Option<&SymInfo> {
        self.visible.get(name).map(|id| &self.syms[*id as usize])
    }

    /// ids of all visible declared (free) constants, in declaration order
    pub fn visible_declared(&self) -> Vec<u32> {
        let mut ids: Vec<u32> = self
            .visible
            .values()
            .copied()
            .filter(|id| self.syms[*id as usize].def.is_none())
            .collect();
        ids.sort_unstable();
        ids
    }

    /// is `id` a declared (free) constant that is currently visible?
    pub fn is_visible_declared(&self, id: u32) -> bool {
        let sym = &self.syms[id as usize];
        sym.def.is_none() && self.visible.get(&sym.name) == Some(&id)
    }

    pub fn visible_all(&self) -> Vec<u32> {
        let mut ids: Vec<u32> = self.visible.values().copied().collect();
        ids.sort_unstable();
        ids
    }

    // ---------------------------------------------------------------------------------------
    // sorts
    // ---------------------------------------------------------------------------------------
    pub fn parse_sort(&self, s: &Sexp) -> TResult<Sort> {
        match s {
            Sexp::Sym(n) if n == "Bool" => Ok(Sort::Bool),
            Sexp::List(l) => match l.as_slice() {
                [Sexp::Sym(u), Sexp::Sym(bv), Sexp::Num(n)] if u == "_" && bv == "BitVec" => {
                    let w: u64 = n.parse().map_err(|_| format!("invalid width {n}"))?;
                    if w == 0 {
                        return Err("bit-vector width must be positive".into());
                    }
                    if w > u32::MAX as u64 {
                        return Err("bit-vector width too large".into());
                    }
                    Ok(Sort::Bv(w as u32))
                }
                [Sexp::Sym(a), i, d] if a == "Array" => {
                    let i = self.parse_sort(i)?;
                    let d = self.parse_sort(d)?;
                    match (i.elem(), d.elem()) {
                        (Some(i), Some(d)) => Ok(Sort::Arr(i, d)),
                        _ => Err("nested arrays are not supported".into()),
                    }
                }
                _ => Err(format!("unknown sort {}", s.show())),
            },
            _ => Err(format!("unknown sort {}", s.show())),
        }
    }

    // ---------------------------------------------------------------------------------------
    // terms
    // ---------------------------------------------------------------------------------------
    pub fn parse_term(&mut self, s: &Sexp) -> TResult<TermId> {
        let mut lets: Vec<(String, TermId)> = vec![];
        self.term(s, &mut lets)
    }

    fn bv_lit(&mut self, w: u32, v: u128) -> TermId {
        self.mk(Op::BvLit(w, v & mask(w)), vec![], Sort::Bv(w))
    }

    fn lit_from_digits(&mut self, digits: &str, bits_per: u32) -> TResult<TermId> {
        let w = digits.len() as u64 * bits_per as u64;
        if w > MAX_W as u64 {
            return Err(format!("STUB-LIMIT: literal of width {w} exceeds {MAX_W}"));
        }
        let v = u128::from_str_radix(digits, 1 << bits_per).map_err(|e| e.to_string())?;
        Ok(self.bv_lit(w as u32, v))
    }

    fn term(&mut self, s: &Sexp, lets: &mut Vec<(String, TermId)>) -> TResult<TermId> {
        match s {
            Sexp::Sym(name) => {
                if let Some((_, t)) = lets.iter().rev().find(|(n, _)| n == name) {
                    return Ok(*t);
                }
                match name.as_str() {
                    "true" => return Ok(self.mk_true()),
                    "false" => return Ok(self.mk_false()),
                    _ => {}
                }
                match self.lookup(name) {
                    Some(info) => Ok(info.def.unwrap_or(info.var_term)),
                    None => Err(format!("unknown constant {name}")),
                }
            }
            Sexp::Bin(d) => self.lit_from_digits(d, 1),
            Sexp::Hex(d) => self.lit_from_digits(d, 4),
            Sexp::Num(n) => Err(format!("numeral {n} is not a term of any available theory")),
            Sexp::Dec(n) => Err(format!("decimal {n} is not a term of any available theory")),
            Sexp::Str(_) => Err("string literal is not a term of any available theory".into()),
            Sexp::Keyword(k) => Err(format!("unexpected keyword :{k}")),
            Sexp::List(l) => {
                if l.is_empty() {
                    return Err("empty application".into());
                }
                // let
                if l[0].sym() == Some("let") {
                    if l.len() != 3 {
                        return Err("malformed let".into());
                    }
                    let bindings = l[1].list().ok_or("malformed let bindings")?;
                    if bindings.is_empty() {
                        return Err("let without bindings".into());
                    }
                    let mut new: Vec<(String, TermId)> = vec![];
                    for b in bindings {
                        match b.list() {
                            Some([Sexp::Sym(n), t]) => {
                                if new.iter().any(|(x, _)| x == n) {
                                    return Err(format!("duplicate let binding {n}"));
                                }
                                // parallel let: evaluated in the outer scope
                                let t = self.term(t, lets)?;
                                new.push((n.clone(), t));
                            }
                            _ => return Err("malformed let binding".into()),
                        }
                    }
                    let n_new = new.len();
                    lets.extend(new);
                    let r = self.term(&l[2], lets);
                    lets.truncate(lets.len() - n_new);
                    return r;
                }
                // (_ bvN w)
                if l[0].sym() == Some("_") {
                    if let [_, Sexp::Sym(bv), Sexp::Num(w)] = l.as_slice() {
                        if let Some(num) = bv.strip_prefix("bv") {
                            if !num.is_empty() && num.bytes().all(|c| c.is_ascii_digit()) {
                                let w: u32 = w.parse().map_err(|_| "invalid width")?;
                                if w == 0 {
                                    return Err("bit-vector width must be positive".into());
                                }
                                if w > MAX_W {
                                    return Err(format!("STUB-LIMIT: width {w} exceeds {MAX_W}"));
                                }
                                let v: u128 = num
                                    .parse()
                                    .map_err(|_| "STUB-LIMIT: literal too large".to_string())?;
                                return Ok(self.bv_lit(w, v));
                            }
                        }
                    }
                    return Err(format!("unknown indexed identifier {}", s.show()));
                }
                if l[0].sym() == Some("!") {
                    return Err("STUB-LIMIT: annotations are not supported".into());
                }
                // indexed / qualified heads
                if let Sexp::List(head) = &l[0] {
                    return self.indexed_app(head, &l[1..], lets, s);
                }
                let f = l[0]
                    .sym()
                    .ok_or_else(|| format!("invalid function application {}", s.show()))?
                    .to_string();
                let mut args = Vec::with_capacity(l.len() - 1);
                for a in &l[1..] {
                    args.push(self.term(a, lets)?);
                }
                self.app(&f, &args)
            }
        }
    }

    fn indexed_app(
        &mut self,
        head: &[Sexp],
        rest: &[Sexp],
        lets: &mut Vec<(String, TermId)>,
        whole: &Sexp,
    ) -> TResult<TermId> {
        let mut args = Vec::with_capacity(rest.len());
        for a in rest {
            args.push(self.term(a, lets)?);
        }
        let num = |s: &Sexp| -> TResult<u32> {
            match s {
                Sexp::Num(n) => n.parse::<u32>().map_err(|_| format!("invalid index {n}")),
                _ => Err("index must be a numeral".into()),
            }
        };
        match head {
            [Sexp::Sym(u), Sexp::Sym(f), idx @ ..] if u == "_" => {
                let one = |this: &Self, args: &[TermId]| -> TResult<(TermId, u32)> {
                    if args.len() != 1 {
                        return Err(format!("{f} expects exactly one argument"));
                    }
                    match this.sort(args[0]) {
                        Sort::Bv(w) => Ok((args[0], w)),
                        other => Err(format!(
                            "{f} expects a bit-vector argument, got {}",
                            other.show()
                        )),
                    }
                };
                match (f.as_str(), idx) {
                    ("extract", [hi, lo]) => {
                        let (hi, lo) = (num(hi)?, num(lo)?);
                        let (a, w) = one(self, &args)?;
                        if !(hi >= lo && hi < w) {
                            return Err(format!(
                                "invalid extract [{hi}:{lo}] on a bit-vector of width {w}"
                            ));
                        }
                        Ok(self.mk(Op::Extract(hi, lo), vec![a], Sort::Bv(hi - lo + 1)))
                    }
                    ("zero_extend", [k]) => {
                        let k = num(k)?;
                        let (a, w) = one(self, &args)?;
                        if k == 0 {
                            return Ok(a);
                        }
                        self.check_w(w as u64 + k as u64)?;
                        Ok(self.mk(Op::ZeroExt(k), vec![a], Sort::Bv(w + k)))
                    }
                    ("sign_extend", [k]) => {
                        let k = num(k)?;
                        let (a, w) = one(self, &args)?;
                        if k == 0 {
                            return Ok(a);
                        }
                        self.check_w(w as u64 + k as u64)?;
                        Ok(self.mk(Op::SignExt(k), vec![a], Sort::Bv(w + k)))
                    }
                    ("repeat", [k]) => {
                        let k = num(k)?;
                        let (a, w) = one(self, &args)?;
                        if k == 0 {
                            return Err("repeat count must be positive".into());
                        }
                        self.check_w(w as u64 * k as u64)?;
                        let mut acc = a;
                        for i in 1..k {
                            acc = self.mk(Op::Concat, vec![a, acc], Sort::Bv(w * (i + 1)));
                        }
                        Ok(acc)
                    }
                    ("rotate_left", [k]) | ("rotate_right", [k]) => {
                        let k = num(k)?;
                        let (a, w) = one(self, &args)?;
                        let k = k % w;
                        if k == 0 {
                            return Ok(a);
                        }
                        let k = if f == "rotate_left" { k } else { w - k };
                        // rotate left by k: (concat a[w-k-1:0] a[w-1:w-k])
                        let lo = self.mk(Op::Extract(w - k - 1, 0), vec![a], Sort::Bv(w - k));
                        let hi = self.mk(Op::Extract(w - 1, w - k), vec![a], Sort::Bv(k));
                        Ok(self.mk(Op::Concat, vec![lo, hi], Sort::Bv(w)))
                    }
                    _ => Err(format!("unknown indexed function {}", whole.show())),
                }
            }
            [Sexp::Sym(a), Sexp::Sym(c), sort] if a == "as" && c == "const" => {
                let sort = self.parse_sort(sort)?;
                match sort {
                    Sort::Arr(i, d) => {
                        if args.len() != 1 {
                            return Err("(as const …) expects exactly one argument".into());
                        }
                        if self.sort(args[0]) != Sort::from(d) {
                            return Err(format!(
                                "(as const {}) applied to a value of sort {}",
                                sort.show(),
                                self.sort(args[0]).show()
                            ));
                        }
                        Ok(self.mk(Op::ConstArr(i), vec![args[0]], sort))
                    }
                    _ => Err("(as const …) requires an array sort".into()),
                }
            }
            _ => Err(format!("unknown function head in {}", whole.show())),
        }
    }

    fn check_w(&self, w: u64) -> TResult<()> {
        if w > MAX_W as u64 {
            Err(format!("STUB-LIMIT: width {w} exceeds {MAX_W}"))
        } else {
            Ok(())
        }
    }

    fn expect_bool(&self, f: &str, args: &[TermId]) -> TResult<()> {
        for a in args {
            if self.sort(*a) != Sort::Bool {
                return Err(format!(
                    "operator {f} expects Bool arguments, got {}",
                    self.sort(*a).show()
                ));
            }
        }
        Ok(())
    }

    fn expect_same_bv(&self, f: &str, args: &[TermId]) -> TResult<u32> {
        let w = match self.sort(args[0]) {
            Sort::Bv(w) => w,
            other => {
                return Err(format!(
                    "operator {f} expects bit-vector arguments, got {}",
                    other.show()
                ));
            }
        };
        for a in args {
            if self.sort(*a) != Sort::Bv(w) {
                return Err(format!(
                    "operator {f} applied to arguments of different sorts: (_ BitVec {w}) and {}",
                    self.sort(*a).show()
                ));
            }
        }
        if w > MAX_W {
            return Err(format!("STUB-LIMIT: width {w} exceeds {MAX_W}"));
        }
        Ok(w)
    }

    fn mk_eq(&mut self, a: TermId, b: TermId) -> TermId {
        self.mk(Op::Eq, vec![a, b], Sort::Bool)
    }

    fn app(&mut self, f: &str, args: &[TermId]) -> TResult<TermId> {
        let n = args.len();
        let arity = |lo: usize, hi: usize| -> TResult<()> {
            if n < lo || n > hi {
                Err(format!("wrong number of arguments ({n}) passed to function {f}"))
            } else {
                Ok(())
            }
        };
        match f {
            "not" => {
                arity(1, 1)?;
                self.expect_bool(f, args)?;
                Ok(self.mk_not(args[0]))
            }
            "and" | "or" | "xor" => {
                arity(2, usize::MAX)?;
                self.expect_bool(f, args)?;
                let op = match f {
                    "and" => Op::And,
                    "or" => Op::Or,
                    _ => Op::Xor,
                };
                let mut acc = args[0];
                for a in &args[1..] {
                    acc = self.mk(op, vec![acc, *a], Sort::Bool);
                }
                Ok(acc)
            }
            "=>" => {
                arity(2, usize::MAX)?;
                self.expect_bool(f, args)?;
                let mut acc = args[n - 1];
                for a in args[..n - 1].iter().rev() {
                    acc = self.mk(Op::Implies, vec![*a, acc], Sort::Bool);
                }
                Ok(acc)
            }
            "=" | "distinct" => {
                arity(2, usize::MAX)?;
                let s0 = self.sort(args[0]);
                for a in args {
                    if self.sort(*a) != s0 {
                        return Err(format!(
                            "Sorts {} and {} are incompatible in {f}",
                            s0.show(),
                            self.sort(*a).show()
                        ));
                    }
                }
                if f == "=" {
                    let mut acc = self.mk_eq(args[0], args[1]);
                    for i in 1..n - 1 {
                        let e = self.mk_eq(args[i], args[i + 1]);
                        acc = self.mk_and(acc, e);
                    }
                    Ok(acc)
                } else {
                    let mut acc: Option<TermId> = None;
                    for i in 0..n {
                        for j in i + 1..n {
                            let e = self.mk_eq(args[i], args[j]);
                            let ne = self.mk_not(e);
                            acc = Some(match acc {
                                None => ne,
                                Some(a) => self.mk_and(a, ne),
                            });
                        }
                    }
                    Ok(acc.unwrap())
                }
            }
            "ite" => {
                arity(3, 3)?;
                if self.sort(args[0]) != Sort::Bool {
                    return Err(format!(
                        "ite condition must be Bool, got {}",
                        self.sort(args[0]).show()
                    ));
                }
                if self.sort(args[1]) != self.sort(args[2]) {
                    return Err(format!(
                        "ite branches have different sorts: {} and {}",
                        self.sort(args[1]).show(),
                        self.sort(args[2]).show()
                    ));
                }
                let s = self.sort(args[1]);
                Ok(self.mk(Op::Ite, args.to_vec(), s))
            }
            "bvnot" | "bvneg" => {
                arity(1, 1)?;
                let w = self.expect_same_bv(f, args)?;
                let op = if f == "bvnot" { Op::BvNot } else { Op::BvNeg };
                Ok(self.mk(op, args.to_vec(), Sort::Bv(w)))
            }
            "bvand" | "bvor" | "bvxor" | "bvadd" | "bvmul" => {
                arity(2, usize::MAX)?;
                let w = self.expect_same_bv(f, args)?;
                let op = Op::Bin(match f {
                    "bvand" => BinOp::And,
                    "bvor" => BinOp::Or,
                    "bvxor" => BinOp::Xor,
                    "bvadd" => BinOp::Add,
                    _ => BinOp::Mul,
                });
                let mut acc = args[0];
                for a in &args[1..] {
                    acc = self.mk(op, vec![acc, *a], Sort::Bv(w));
                }
                Ok(acc)
            }
            "bvsub" | "bvudiv" | "bvurem" | "bvsdiv" | "bvsrem" | "bvsmod" | "bvshl"
            | "bvlshr" | "bvashr" => {
                arity(2, 2)?;
                let w = self.expect_same_bv(f, args)?;
                let op = Op::Bin(match f {
                    "bvsub" => BinOp::Sub,
                    "bvudiv" => BinOp::Udiv,
                    "bvurem" => BinOp::Urem,
                    "bvsdiv" => BinOp::Sdiv,
                    "bvsrem" => BinOp::Srem,
                    "bvsmod" => BinOp::Smod,
                    "bvshl" => BinOp::Shl,
                    "bvlshr" => BinOp::Lshr,
                    _ => BinOp::Ashr,
                });
                Ok(self.mk(op, args.to_vec(), Sort::Bv(w)))
            }
            "bvnand" | "bvnor" | "bvxnor" => {
                arity(2, 2)?;
                let w = self.expect_same_bv(f, args)?;
                let op = Op::Bin(match f {
                    "bvnand" => BinOp::And,
                    "bvnor" => BinOp::Or,
                    _ => BinOp::Xor,
                });
                let inner = self.mk(op, args.to_vec(), Sort::Bv(w));
                Ok(self.mk(Op::BvNot, vec![inner], Sort::Bv(w)))
            }
            "bvcomp" => {
                arity(2, 2)?;
                self.expect_same_bv(f, args)?;
                let eq = self.mk_eq(args[0], args[1]);
                let one = self.bv_lit(1, 1);
                let zero = self.bv_lit(1, 0);
                Ok(self.mk(Op::Ite, vec![eq, one, zero], Sort::Bv(1)))
            }
            "bvult" | "bvule" | "bvugt" | "bvuge" | "bvslt" | "bvsle" | "bvsgt" | "bvsge" => {
                arity(2, 2)?;
                self.expect_same_bv(f, args)?;
                let op = Op::Cmp(match f {
                    "bvult" => CmpOp::Ult,
                    "bvule" => CmpOp::Ule,
                    "bvugt" => CmpOp::Ugt,
                    "bvuge" => CmpOp::Uge,
                    "bvslt" => CmpOp::Slt,
                    "bvsle" => CmpOp::Sle,
                    "bvsgt" => CmpOp::Sgt,
                    _ => CmpOp::Sge,
                });
                Ok(self.mk(op, args.to_vec(), Sort::Bool))
            }
            "concat" => {
                arity(2, 2)?;
                match (self.sort(args[0]), self.sort(args[1])) {
                    (Sort::Bv(a), Sort::Bv(b)) => {
                        self.check_w(a as u64 + b as u64)?;
                        Ok(self.mk(Op::Concat, args.to_vec(), Sort::Bv(a + b)))
                    }
                    (a, b) => Err(format!(
                        "concat expects bit-vector arguments, got {} and {}",
                        a.show(),
                        b.show()
                    )),
                }
            }
            "select" => {
                arity(2, 2)?;
                match self.sort(args[0]) {
                    Sort::Arr(i, d) => {
                        if self.sort(args[1]) != Sort::from(i) {
                            return Err(format!(
                                "select index has sort {}, array expects {}",
                                self.sort(args[1]).show(),
                                Sort::from(i).show()
                            ));
                        }
                        Ok(self.mk(Op::Select, args.to_vec(), Sort::from(d)))
                    }
                    other => Err(format!("select expects an array, got {}", other.show())),
                }
            }
            "store" => {
                arity(3, 3)?;
                match self.sort(args[0]) {
                    Sort::Arr(i, d) => {
                        if self.sort(args[1]) != Sort::from(i) {
                            return Err(format!(
                                "store index has sort {}, array expects {}",
                                self.sort(args[1]).show(),
                                Sort::from(i).show()
                            ));
                        }
                        if self.sort(args[2]) != Sort::from(d) {
                            return Err(format!(
                                "store value has sort {}, array expects {}",
                                self.sort(args[2]).show(),
                                Sort::from(d).show()
                            ));
                        }
                        Ok(self.mk(Op::Store, args.to_vec(), Sort::Arr(i, d)))
                    }
                    other => Err(format!("store expects an array, got {}", other.show())),
                }
            }
            _ => {
                if self.lookup(f).is_some() {
                    Err(format!("constant {f} applied to arguments"))
                } else {
                    Err(format!("unknown function/constant {f}"))
                }
            }
        }
    }

    // ---------------------------------------------------------------------------------------
    // evaluation
    // ---------------------------------------------------------------------------------------

    /// Evaluates `root` under `env` (value per declared symbol id). Iterative, memoised in `memo`.
    pub fn eval(
        &self,
        root: TermId,
        env: &dyn Fn(u32) -> Val,
        memo: &mut FxHashMap<TermId, Val>,
    ) -> Val {
        let mut stack = vec![root];
        while let Some(&t) = stack.last() {
            if memo.contains_key(&t) {
                stack.pop();
                continue;
            }
            let term = &self.terms[t as usize];
            let mut ready = true;
            for a in &term.args {
                if !memo.contains_key(a) {
                    if ready {
                        ready = false;
                    }
                    stack.push(*a);
                }
            }
            if !ready {
                continue;
            }
            stack.pop();
            let arg = |i: usize| -> &Val { &memo[&term.args[i]] };
            let b = |x: bool| Val::B(Bv::from_bool(x));
            let v = match term.op {
                Op::Var(id) => env(id),
                Op::True => b(true),
                Op::False => b(false),
                Op::BvLit(w, v) => Val::B(Bv::new(w, v)),
                Op::Not => b(!arg(0).bv().is_true()),
                Op::And => b(arg(0).bv().is_true() && arg(1).bv().is_true()),
                Op::Or => b(arg(0).bv().is_true() || arg(1).bv().is_true()),
                Op::Xor => b(arg(0).bv().is_true() != arg(1).bv().is_true()),
                Op::Implies => b(!arg(0).bv().is_true() || arg(1).bv().is_true()),
                Op::Eq => b(arg(0) == arg(1)),
                Op::Ite => {
                    if arg(0).bv().is_true() {
                        arg(1).clone()
                    } else {
                        arg(2).clone()
                    }
                }
                Op::BvNot => Val::B(bv_not(arg(0).bv())),
                Op::BvNeg => Val::B(bv_neg(arg(0).bv())),
                Op::Bin(op) => Val::B(bin_op(op, arg(0).bv(), arg(1).bv())),
                Op::Cmp(op) => b(cmp_op(op, arg(0).bv(), arg(1).bv())),
                Op::Concat => Val::B(concat(arg(0).bv(), arg(1).bv())),
                Op::Extract(hi, lo) => Val::B(extract(arg(0).bv(), hi, lo)),
                Op::ZeroExt(k) => Val::B(zext(arg(0).bv(), k)),
                Op::SignExt(k) => Val::B(sext(arg(0).bv(), k)),
                Op::Select => Val::B(arg(0).arr().select(arg(1).bv().v)),
                Op::Store => Val::A(arg(0).arr().store(arg(1).bv().v, arg(2).bv().v)),
                Op::ConstArr(i) => {
                    let d = arg(0).bv();
                    Val::A(Arr::constant(i.width(), d.w, d.v))
                }
            };
            memo.insert(t, v);
        }
        memo[&root].clone()
    }
}

const BV_FUNS: &[&str] = &[
    "bvnot", "bvneg", "bvand", "bvor", "bvxor", "bvadd", "bvsub", "bvmul", "bvudiv", "bvurem",
    "bvsdiv", "bvsrem", "bvsmod", "bvshl", "bvlshr", "bvashr", "bvult", "bvule", "bvugt", "bvuge",
    "bvslt", "bvsle", "bvsgt", "bvsge", "bvnand", "bvnor", "bvxnor", "bvcomp",
];
