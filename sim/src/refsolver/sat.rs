//! A small incremental CDCL SAT solver: two watched literals, 1-UIP learning, assumptions,
//! seeded decision order and polarity. Literals are `i32` (±(var+1)).

use crate::rng::Rng;

pub type Lit = i32;

#[inline]
fn var(l: Lit) -> usize {
    (l.unsigned_abs() - 1) as usize
}
#[inline]
fn idx(l: Lit) -> usize {
    // watch-list index
    (var(l) << 1) | (l < 0) as usize
}

#[derive(Clone, Copy, PartialEq, Eq, Debug)]
pub enum PolarityMode {
    Random,
    /// prefer false (like most real solvers' default phase)
    Zeros,
    /// prefer true
    Ones,
    /// prefer the per-variable hint polarity (see `set_hints`)
    Hint,
    /// prefer the opposite of the hint
    AntiHint,
}

pub struct Sat {
    clauses: Vec<Vec<Lit>>,
    watches: Vec<Vec<u32>>, // per literal index: clause ids watching that literal
    assign: Vec<i8>,        // 0 unassigned, 1 true, -1 false
    level: Vec<u32>,
    reason: Vec<u32>, // clause id or u32::MAX
    trail: Vec<Lit>,
    trail_lim: Vec<usize>,
    qhead: usize,
    /// set once the clause database itself (without assumptions) is unsatisfiable
    pub inconsistent: bool,
    seen: Vec<bool>,
    hints: Vec<i8>,
    /// assignment at the time the last `solve` returned true (the model survives `reset_to_root`)
    saved: Vec<i8>,
    pub n_conflicts: u64,
    pub n_decisions: u64,
    pub n_propagations: u64,
}

const NO_REASON: u32 = u32::MAX;

impl Default for Sat {
    fn default() -> Self {
        Self::new()
    }
}

impl Sat {
    pub fn new() -> Self {
        Sat {
            clauses: vec![],
            watches: vec![],
            assign: vec![],
            level: vec![],
            reason: vec![],
            trail: vec![],
            trail_lim: vec![],
            qhead: 0,
            inconsistent: false,
            seen: vec![],
            hints: vec![],
            saved: vec![],
            n_conflicts: 0,
            n_decisions: 0,
            n_propagations: 0,
        }
    }

    pub fn num_vars(&self) -> usize {
        self.assign.len()
    }

    pub fn num_clauses(&self) -> usize {
        self.clauses.len()
    }

    pub fn new_var(&mut self) -> Lit {
        self.assign.push(0);
        self.level.push(0);
        self.reason.push(NO_REASON);
        self.seen.push(false);
        self.hints.push(0);
        self.watches.push(vec![]);
        self.watches.push(vec![]);
        self.assign.len() as Lit
    }

    pub fn set_hint(&mut self, l: Lit) {
        self.hints[var(l)] = if l > 0 { 1 } else { -1 };
    }

    pub fn clear_hints(&mut self) {
        for h in self.hints.iter_mut() {
            *h = 0;
        }
    }

    #[inline]
    pub fn value(&self, l: Lit) -> i8 {
        let a = self.assign[var(l)];
        if l > 0 { a } else { -a }
    }

    /// value in the model of the last `solve` that returned true; variables created since then
    /// read as false
    pub fn model_value(&self, l: Lit) -> bool {
        let a = self.saved.get(var(l)).copied().unwrap_or(0);
        (if l > 0 { a } else { -a }) > 0
    }

    fn decision_level(&self) -> u32 {
        self.trail_lim.len() as u32
    }

    /// Adds a clause. Must be called at decision level 0 (i.e. between `solve` calls).
    pub fn add_clause(&mut self, lits: &[Lit]) {
        self.cancel_until(0);
        if self.inconsistent {
            return;
        }
        // simplify: remove duplicates / false literals at level 0, detect tautology / satisfied
        let mut c: Vec<Lit> = Vec::with_capacity(lits.len());
        for &l in lits {
            if self.value(l) > 0 {
                return; // satisfied at level 0
            }
            if self.value(l) < 0 {
                continue;
            }
            if c.contains(&-l) {
                return; // tautology
            }
            if !c.contains(&l) {
                c.push(l);
            }
        }
        match c.len() {
            0 => self.inconsistent = true,
            1 => {
                self.enqueue(c[0], NO_REASON);
                if self.propagate().is_some() {
                    self.inconsistent = true;
                }
            }
            _ => {
                let id = self.clauses.len() as u32;
                self.watches[idx(c[0])].push(id);
                self.watches[idx(c[1])].push(id);
                self.clauses.push(c);
            }
        }
    }

    fn enqueue(&mut self, l: Lit, reason: u32) {
        debug_assert_eq!(self.value(l), 0);
        let v = var(l);
        self.assign[v] = if l > 0 { 1 } else { -1 };
        self.level[v] = self.decision_level();
        self.reason[v] = reason;
        self.trail.push(l);
    }

    /// returns a conflicting clause id
    fn propagate(&mut self) -> Option<u32> {
        while self.qhead < self.trail.len() {
            let p = self.trail[self.qhead];
            self.qhead += 1;
            self.n_propagations += 1;
            let false_lit = -p;
            let wi = idx(false_lit);
            let mut ws = std::mem::take(&mut self.watches[wi]);
            let mut i = 0;
            let mut j = 0;
            let mut conflict = None;
            while i < ws.len() {
                let cid = ws[i];
                i += 1;
                let c = &mut self.clauses[cid as usize];
                // make sure the false literal is at position 1
                if c[0] == false_lit {
                    c.swap(0, 1);
                }
                debug_assert_eq!(c[1], false_lit);
                let first = c[0];
                let first_val = {
                    let a = self.assign[var(first)];
                    if first > 0 { a } else { -a }
                };
                if first_val > 0 {
                    ws[j] = cid;
                    j += 1;
                    continue;
                }
                // look for a new watch
                let mut found = false;
                for k in 2..c.len() {
                    let lk = c[k];
                    let a = self.assign[var(lk)];
                    let val = if lk > 0 { a } else { -a };
                    if val >= 0 {
                        c.swap(1, k);
                        self.watches[idx(c[1])].push(cid);
                        found = true;
                        break;
                    }
                }
                if found {
                    continue;
                }
                // clause is unit or conflicting
                ws[j] = cid;
                j += 1;
                if first_val < 0 {
                    conflict = Some(cid);
                    // copy remaining watches
                    while i < ws.len() {
                        ws[j] = ws[i];
                        j += 1;
                        i += 1;
                    }
                    self.qhead = self.trail.len();
                } else {
                    self.enqueue(first, cid);
                }
            }
            ws.truncate(j);
            self.watches[wi] = ws;
            if conflict.is_some() {
                return conflict;
            }
        }
        None
    }

    fn cancel_until(&mut self, level: u32) {
        if self.decision_level() > level {
            let lim = self.trail_lim[level as usize];
            for k in (lim..self.trail.len()).rev() {
                let v = var(self.trail[k]);
                self.assign[v] = 0;
                self.reason[v] = NO_REASON;
            }
            self.trail.truncate(lim);
            self.trail_lim.truncate(level as usize);
            self.qhead = lim;
        }
    }

    /// 1-UIP conflict analysis; returns (learnt clause with asserting literal first, backjump level)
    fn analyze(&mut self, confl: u32) -> (Vec<Lit>, u32) {
        let mut learnt: Vec<Lit> = vec![0];
        let mut path_c = 0;
        let mut p: Lit = 0;
        let mut index = self.trail.len();
        let mut confl = confl;
        let cur = self.decision_level();
        let mut to_clear = vec![];
        loop {
            let c = self.clauses[confl as usize].clone();
            for &q in c.iter() {
                if q == p {
                    continue;
                }
                let v = var(q);
                if !self.seen[v] && self.level[v] > 0 {
                    self.seen[v] = true;
                    to_clear.push(v);
                    if self.level[v] >= cur {
                        path_c += 1;
                    } else {
                        learnt.push(q);
                    }
                }
            }
            // select next literal to look at
            loop {
                index -= 1;
                if self.seen[var(self.trail[index])] {
                    break;
                }
            }
            p = self.trail[index];
            self.seen[var(p)] = false;
            path_c -= 1;
            if path_c == 0 {
                break;
            }
            confl = self.reason[var(p)];
            debug_assert_ne!(confl, NO_REASON);
        }
        learnt[0] = -p;
        for v in to_clear {
            self.seen[v] = false;
        }
        // backjump level = max level among the other literals
        let mut bt = 0;
        let mut max_i = 1;
        for (i, l) in learnt.iter().enumerate().skip(1) {
            let lv = self.level[var(*l)];
            if lv > bt {
                bt = lv;
                max_i = i;
            }
        }
        if learnt.len() > 1 {
            learnt.swap(1, max_i);
        }
        (learnt, bt)
    }

    /// Solves under assumptions. Returns true (model available via `model_value`) or false.
    /// `rng`/`mode` control decision order and polarity. The solver state is reset to decision
    /// level 0 before returning `false`, and kept at the model for `true` until the next call.
    pub fn solve(&mut self, assumptions: &[Lit], rng: &mut Rng, mode: PolarityMode) -> bool {
        self.cancel_until(0);
        if self.inconsistent {
            return false;
        }
        if self.propagate().is_some() {
            self.inconsistent = true;
            return false;
        }
        // random static variable order for this call
        let n = self.num_vars();
        let mut order: Vec<u32> = (0..n as u32).collect();
        rng.shuffle(&mut order);
        let mut order_pos = 0usize;

        loop {
            if let Some(confl) = self.propagate() {
                self.n_conflicts += 1;
                if self.decision_level() == 0 {
                    self.inconsistent = true;
                    return false;
                }
                // conflict within the assumption levels => unsat under assumptions
                if self.decision_level() <= assumptions.len() as u32 {
                    // need to check whether the conflict depends only on assumptions: analyze
                    // would produce a clause forcing backjump below the assumption levels. We
                    // handle this uniformly: learn, backjump, and re-assume.
                }
                let (learnt, bt) = self.analyze(confl);
                self.cancel_until(bt);
                order_pos = 0;
                if learnt.len() == 1 {
                    debug_assert_eq!(bt, 0);
                    if self.value(learnt[0]) < 0 {
                        self.inconsistent = true;
                        return false;
                    }
                    if self.value(learnt[0]) == 0 {
                        self.enqueue(learnt[0], NO_REASON);
                    }
                } else {
                    let id = self.clauses.len() as u32;
                    self.watches[idx(learnt[0])].push(id);
                    self.watches[idx(learnt[1])].push(id);
                    let l0 = learnt[0];
                    self.clauses.push(learnt);
                    debug_assert_eq!(self.value(l0), 0);
                    self.enqueue(l0, id);
                }
                continue;
            }
            // no conflict: next decision
            let dl = self.decision_level() as usize;
            if dl < assumptions.len() {
                let a = assumptions[dl];
                match self.value(a) {
                    1 => {
                        // already true: open a dummy level to keep indices aligned
                        self.trail_lim.push(self.trail.len());
                    }
                    -1 => {
                        // assumption is falsified by the clauses + earlier assumptions
                        self.cancel_until(0);
                        return false;
                    }
                    _ => {
                        self.trail_lim.push(self.trail.len());
                        self.enqueue(a, NO_REASON);
                    }
                }
                continue;
            }
            // pick an unassigned variable
            let mut pick = None;
            while order_pos < order.len() {
                let v = order[order_pos] as usize;
                if self.assign[v] == 0 {
                    pick = Some(v);
                    break;
                }
                order_pos += 1;
            }
            match pick {
                None => {
                    // all assigned: model
                    self.saved.clone_from(&self.assign);
                    return true;
                }
                Some(v) => {
                    self.n_decisions += 1;
                    let pos = match mode {
                        PolarityMode::Random => rng.bool(),
                        PolarityMode::Zeros => rng.chance(1, 16),
                        PolarityMode::Ones => !rng.chance(1, 16),
                        PolarityMode::Hint => match self.hints[v] {
                            1 => !rng.chance(1, 16),
                            -1 => rng.chance(1, 16),
                            _ => rng.bool(),
                        },
                        PolarityMode::AntiHint => match self.hints[v] {
                            1 => rng.chance(1, 16),
                            -1 => !rng.chance(1, 16),
                            _ => rng.bool(),
                        },
                    };
                    let l = (v as Lit + 1) * if pos { 1 } else { -1 };
                    self.trail_lim.push(self.trail.len());
                    self.enqueue(l, NO_REASON);
                }
            }
        }
    }

    /// Must be called before adding clauses after a `solve` that returned true.
    pub fn reset_to_root(&mut self) {
        self.cancel_until(0);
    }
}

#[cfg(test)]
mod tests {
    use super::*;

    fn brute(nv: usize, clauses: &[Vec<Lit>], assumps: &[Lit]) -> bool {
        'outer: for m in 0..(1u32 << nv) {
            let val = |l: Lit| ((m >> var(l)) & 1 == 1) == (l > 0);
            for a in assumps {
                if !val(*a) {
                    continue 'outer;
                }
            }
            for c in clauses {
                if !c.iter().any(|l| val(*l)) {
                    continue 'outer;
                }
            }
            return true;
        }
        false
    }

    #[test]
    fn random_cnf_vs_brute_force() {
        let mut rng = Rng::new(7);
        for round in 0..3000 {
            let nv = 3 + rng.usize_below(8);
            let nc = rng.usize_below(nv * 5);
            let mut s = Sat::new();
            for _ in 0..nv {
                s.new_var();
            }
            let mut clauses = vec![];
            for _ in 0..nc {
                let len = 1 + rng.usize_below(3);
                let c: Vec<Lit> = (0..len)
                    .map(|_| (1 + rng.usize_below(nv) as Lit) * if rng.bool() { 1 } else { -1 })
                    .collect();
                clauses.push(c);
            }
            // add half, solve, add the rest, solve with assumptions several times
            let half = clauses.len() / 2;
            for c in &clauses[..half] {
                s.add_clause(c);
            }
            let exp = brute(nv, &clauses[..half], &[]);
            assert_eq!(s.solve(&[], &mut rng, PolarityMode::Random), exp, "round {round}");
            s.reset_to_root();
            for c in &clauses[half..] {
                s.add_clause(c);
            }
            for _ in 0..4 {
                let na = rng.usize_below(4);
                let assumps: Vec<Lit> = (0..na)
                    .map(|_| (1 + rng.usize_below(nv) as Lit) * if rng.bool() { 1 } else { -1 })
                    .collect();
                let exp = brute(nv, &clauses, &assumps);
                let got = s.solve(&assumps, &mut rng, PolarityMode::Random);
                assert_eq!(got, exp, "round {round} assumps {assumps:?}");
                if got {
                    for c in &clauses {
                        assert!(c.iter().any(|l| s.model_value(*l)));
                    }
                    for a in &assumps {
                        assert!(s.model_value(*a));
                    }
                }
                s.reset_to_root();
            }
        }
    }
}
