//! RefSolver: a strict, self-validating stand-in for an external SMT-LIB solver process.
//! Written from the SMT-LIB 2.6 standard; shares no code with patronus.

pub mod blast;
pub mod sat;
pub mod sexp;
pub mod term;

use crate::rng::Rng;
use crate::val::*;
use blast::Blaster;
use rustc_hash::FxHashMap;
use sat::{Lit, PolarityMode};
use sexp::{ReadError, Reader, Sexp, quote_symbol};
use term::*;

#[derive(Clone, Copy, Debug, PartialEq, Eq)]
pub enum ConstArrayMode {
    Always,
    /// z3: only when the logic is ALL
    OnlyLogicAll,
    Never,
}

#[derive(Clone, Copy, Debug, PartialEq, Eq)]
pub enum ErrStyle {
    Z3,
    Cvc5,
    Plain,
}

#[derive(Clone, Debug, PartialEq, Eq)]
pub struct Profile {
    pub program: &'static str,
    pub check_sat_assuming: bool,
    pub unsat_assumptions: bool,
    pub const_array: ConstArrayMode,
    /// process exits (status 1) right after printing an `(error …)`
    pub dies_on_error: bool,
    pub err_style: ErrStyle,
    /// prints `#x…` for widths divisible by four
    pub hex_values: bool,
}

pub const PROFILES: [Profile; 4] = [
    Profile {
        program: "bitwuzla",
        check_sat_assuming: true,
        unsat_assumptions: true,
        const_array: ConstArrayMode::Always,
        dies_on_error: true,
        err_style: ErrStyle::Plain,
        hex_values: false,
    },
    Profile {
        program: "yices-smt2",
        check_sat_assuming: false,
        unsat_assumptions: false,
        const_array: ConstArrayMode::Never,
        dies_on_error: true,
        err_style: ErrStyle::Plain,
        hex_values: false,
    },
    Profile {
        program: "z3",
        check_sat_assuming: true,
        unsat_assumptions: true,
        const_array: ConstArrayMode::OnlyLogicAll,
        dies_on_error: false,
        err_style: ErrStyle::Z3,
        hex_values: true,
    },
    Profile {
        program: "cvc5",
        check_sat_assuming: true,
        unsat_assumptions: true,
        const_array: ConstArrayMode::Always,
        dies_on_error: true,
        err_style: ErrStyle::Cvc5,
        hex_values: false,
    },
];

pub fn profile_for(program: &str) -> Option<&'static Profile> {
    PROFILES.iter().find(|p| p.program == program)
}

#[derive(Clone, Copy, Debug, PartialEq, Eq)]
pub enum CorePolicy {
    Minimal,
    Full,
    Mid,
}

#[derive(Clone, Debug)]
pub struct Policy {
    pub polarity: PolarityMode,
    pub core: CorePolicy,
    /// replies may span several lines / contain extra spaces
    pub multiline: bool,
    /// array values may contain shadowed stores
    pub shadow_stores: bool,
    /// values may use `let`-bound sub-terms
    pub lets: bool,
    /// unsat assumptions are printed from the internal term (literals re-spelled, definitions
    /// inlined) instead of verbatim
    pub respell_core: bool,
    pub shuffle_core: bool,
}

impl Policy {
    pub fn canonical() -> Self {
        Policy {
            polarity: PolarityMode::Zeros,
            core: CorePolicy::Full,
            multiline: false,
            shadow_stores: false,
            lets: false,
            respell_core: false,
            shuffle_core: false,
        }
    }
    pub fn random(rng: &mut Rng) -> Self {
        Policy {
            polarity: *rng.pick(&[
                PolarityMode::Random,
                PolarityMode::Random,
                PolarityMode::Zeros,
                PolarityMode::Ones,
            ]),
            core: *rng.pick(&[CorePolicy::Minimal, CorePolicy::Minimal, CorePolicy::Full, CorePolicy::Mid]),
            multiline: rng.chance(1, 2),
            shadow_stores: rng.chance(1, 3),
            lets: rng.chance(1, 4),
            respell_core: rng.chance(1, 3),
            shuffle_core: rng.chance(1, 2),
        }
    }
    pub fn describe(&self) -> String {
        format!(
            "polarity={:?} core={:?} multiline={} shadow={} lets={} respell={} shuffle={}",
            self.polarity,
            self.core,
            self.multiline,
            self.shadow_stores,
            self.lets,
            self.respell_core,
            self.shuffle_core
        )
    }
}

#[derive(Clone, Debug, PartialEq, Eq)]
pub enum CmdKind {
    SetOption,
    SetInfo,
    SetLogic,
    Declare,
    Define,
    Assert,
    CheckSat,
    CheckSatAssuming,
    Push,
    Pop,
    GetValue,
    GetUnsatAssumptions,
    Exit,
    Other,
}

impl CmdKind {
    pub fn response_bearing(&self) -> bool {
        matches!(
            self,
            CmdKind::CheckSat
                | CmdKind::CheckSatAssuming
                | CmdKind::GetValue
                | CmdKind::GetUnsatAssumptions
        )
    }
    pub fn short(&self) -> &'static str {
        match self {
            CmdKind::SetOption => "opt",
            CmdKind::SetInfo => "info",
            CmdKind::SetLogic => "logic",
            CmdKind::Declare => "decl",
            CmdKind::Define => "def",
            CmdKind::Assert => "assert",
            CmdKind::CheckSat => "check",
            CmdKind::CheckSatAssuming => "check-assuming",
            CmdKind::Push => "push",
            CmdKind::Pop => "pop",
            CmdKind::GetValue => "get-value",
            CmdKind::GetUnsatAssumptions => "get-core",
            CmdKind::Exit => "exit",
            CmdKind::Other => "other",
        }
    }
}

pub fn classify(cmd: &Sexp) -> CmdKind {
    let head = cmd.list().and_then(|l| l.first()).and_then(|h| h.sym());
    match head {
        Some("set-option") => CmdKind::SetOption,
        Some("set-info") => CmdKind::SetInfo,
        Some("set-logic") => CmdKind::SetLogic,
        Some("declare-const") | Some("declare-fun") => CmdKind::Declare,
        Some("define-fun") | Some("define-const") => CmdKind::Define,
        Some("assert") => CmdKind::Assert,
        Some("check-sat") => CmdKind::CheckSat,
        Some("check-sat-assuming") => CmdKind::CheckSatAssuming,
        Some("push") => CmdKind::Push,
        Some("pop") => CmdKind::Pop,
        Some("get-value") => CmdKind::GetValue,
        Some("get-unsat-assumptions") => CmdKind::GetUnsatAssumptions,
        Some("exit") => CmdKind::Exit,
        _ => CmdKind::Other,
    }
}

#[derive(Clone, Debug, PartialEq, Eq)]
pub enum Mode {
    Start,
    Assert,
    Sat,
    Unsat,
}

#[derive(Clone, Debug)]
pub struct Reply {
    /// text written to stdout (may be empty)
    pub text: String,
    /// the solver rejected the command with an `(error …)`; the message
    pub error: Option<String>,
    /// process exits after this reply with the given status
    pub exit: Option<i32>,
}

#[derive(Default, Clone, Debug)]
pub struct SolverStats {
    pub commands: u64,
    pub checks: u64,
    pub sat: u64,
    pub unsat: u64,
    pub get_values: u64,
    pub get_cores: u64,
    pub errors: u64,
    pub multiline_replies: u64,
    pub hex_values: u64,
    pub array_values: u64,
    pub let_values: u64,
    pub shadow_values: u64,
    pub core_minimal: u64,
    pub core_full: u64,
    pub core_mid: u64,
    pub core_lits_in: u64,
    pub core_lits_out: u64,
    pub respelled_cores: u64,
    pub max_push_depth: u64,
}

/// a value handed out by get-value, for the C14 oracle
#[derive(Clone, Debug)]
pub struct GivenValue {
    pub term_text: String,
    pub value: Val,
    pub sort: Sort,
    pub printed: String,
}

pub struct RefSolver {
    pub profile: Profile,
    pub policy: Policy,
    rng_model: std::cell::RefCell<Rng>,
    rng_core: Rng,
    rng_print: Rng,
    pub terms: Terms,
    blaster: Blaster,
    /// (push level, term, root literal)
    assertions: Vec<(usize, TermId, Lit)>,
    pub logic: Option<String>,
    produce_unsat_assumptions: bool,
    pub mode: Mode,
    /// model over declared symbols after the last sat answer
    /// values of the declared symbols in the current model, filled on demand
    model: std::cell::RefCell<FxHashMap<u32, Val>>,
    model_memo: FxHashMap<TermId, Val>,
    /// assumptions of the last check-sat-assuming: (original sexp, term)
    last_assumptions: Vec<(Sexp, TermId)>,
    last_core: Vec<usize>,
    pub had_error: bool,
    pub stats: SolverStats,
    /// every value handed out through get-value (for oracles)
    pub given_values: Vec<GivenValue>,
    /// set if the stub itself failed (self-validation, limits): harness error, not a violation
    pub stub_failure: Option<String>,
    line_no: u64,
}

impl RefSolver {
    pub fn new(profile: Profile, policy: Policy, seed: u64) -> Self {
        RefSolver {
            profile,
            policy,
            rng_model: std::cell::RefCell::new(Rng::stream(seed, "solver.model")),
            rng_core: Rng::stream(seed, "solver.core"),
            rng_print: Rng::stream(seed, "solver.print"),
            terms: Terms::new(),
            blaster: Blaster::new(),
            assertions: vec![],
            logic: None,
            produce_unsat_assumptions: false,
            mode: Mode::Start,
            model: std::cell::RefCell::new(FxHashMap::default()),
            model_memo: FxHashMap::default(),
            last_assumptions: vec![],
            last_core: vec![],
            had_error: false,
            stats: SolverStats::default(),
            given_values: vec![],
            stub_failure: None,
            line_no: 0,
        }
    }

    fn fmt_error(&self, msg: &str) -> String {
        let m = msg.replace('"', "\"\"");
        match self.profile.err_style {
            ErrStyle::Z3 => format!("(error \"line {} column 1: {}\")\n", self.line_no, m),
            ErrStyle::Cvc5 => format!("(error \"Parse Error: <stdin>:{}.1: {}\")\n", self.line_no, m),
            ErrStyle::Plain => format!("(error \"{m}\")\n"),
        }
    }

    fn error(&mut self, msg: String) -> Reply {
        if msg.contains("STUB-LIMIT") {
            self.stub_failure = Some(msg.clone());
        }
        self.had_error = true;
        self.stats.errors += 1;
        let text = self.fmt_error(&msg);
        Reply {
            text,
            error: Some(msg),
            exit: if self.profile.dies_on_error { Some(1) } else { None },
        }
    }

    fn silent() -> Reply {
        Reply {
            text: String::new(),
            error: None,
            exit: None,
        }
    }

    fn say(text: String) -> Reply {
        Reply {
            text,
            error: None,
            exit: None,
        }
    }

    /// Executes one command.
    pub fn exec(&mut self, cmd: &Sexp) -> Reply {
        self.line_no += 1;
        self.stats.commands += 1;
        let l = match cmd.list() {
            Some(l) if !l.is_empty() => l,
            _ => return self.error(format!("invalid command, '(' expected, got {}", cmd.show())),
        };
        let head = match l[0].sym() {
            Some(h) => h.to_string(),
            None => return self.error("invalid command, symbol expected".into()),
        };
        match head.as_str() {
            "set-option" => {
                match l {
                    [_, Sexp::Keyword(k), v] => {
                        if k == "produce-unsat-assumptions" {
                            match v.sym() {
                                Some("true") => self.produce_unsat_assumptions = true,
                                Some("false") => self.produce_unsat_assumptions = false,
                                _ => {
                                    return self.error(format!(
                                        "option value for :{k} must be true or false, got {}",
                                        v.show()
                                    ));
                                }
                            }
                            if self.mode != Mode::Start {
                                // the standard only allows this option in start mode
                                return self.error(format!(
                                    "option :{k} cannot be set after initialization"
                                ));
                            }
                        }
                        Self::silent()
                    }
                    [_, Sexp::Keyword(_)] => Self::silent(),
                    _ => self.error("invalid set-option command, keyword expected".into()),
                }
            }
            "set-info" => match l {
                [_, Sexp::Keyword(_), ..] => Self::silent(),
                _ => self.error("invalid set-info command, keyword expected".into()),
            },
            "set-logic" => match l {
                [_, Sexp::Sym(name)] => {
                    if self.logic.is_some() {
                        return self.error("the logic has already been set".into());
                    }
                    if self.mode != Mode::Start {
                        return self.error("logic must be set before initialization".into());
                    }
                    const KNOWN: &[&str] = &[
                        "ALL", "QF_BV", "QF_ABV", "QF_AUFBV", "QF_UFBV", "QF_UF", "QF_AX",
                    ];
                    if !KNOWN.contains(&name.as_str()) {
                        return self.error(format!("unknown logic {name}"));
                    }
                    self.logic = Some(name.clone());
                    Self::silent()
                }
                _ => self.error("invalid set-logic command".into()),
            },
            "declare-const" | "declare-fun" => {
                let (name, sort) = match (head.as_str(), l) {
                    ("declare-const", [_, Sexp::Sym(n), s]) => (n, s),
                    ("declare-fun", [_, Sexp::Sym(n), Sexp::List(args), s]) => {
                        if !args.is_empty() {
                            return self.error(
                                "STUB-LIMIT: uninterpreted functions with arguments".into(),
                            );
                        }
                        (n, s)
                    }
                    _ => return self.error(format!("invalid {head} command")),
                };
                let sort = match self.terms.parse_sort(sort) {
                    Ok(s) => s,
                    Err(e) => return self.error(e),
                };
                if let Err(e) = self.check_logic_sort(sort) {
                    return self.error(e);
                }
                if let Err(e) = self.terms.declare(name, sort, None) {
                    return self.error(e);
                }
                self.leave_start();
                Self::silent()
            }
            "define-fun" => match l {
                [_, Sexp::Sym(name), Sexp::List(args), sort, body] => {
                    if !args.is_empty() {
                        return self.error("STUB-LIMIT: define-fun with arguments".into());
                    }
                    let sort = match self.terms.parse_sort(sort) {
                        Ok(s) => s,
                        Err(e) => return self.error(e),
                    };
                    let t = match self.parse_term_checked(body) {
                        Ok(t) => t,
                        Err(e) => return self.error(e),
                    };
                    if self.terms.sort(t) != sort {
                        return self.error(format!(
                            "invalid function definition sort mismatch: declared {} but body has sort {}",
                            sort.show(),
                            self.terms.sort(t).show()
                        ));
                    }
                    if let Err(e) = self.terms.declare(name, sort, Some(t)) {
                        return self.error(e);
                    }
                    self.leave_start();
                    Self::silent()
                }
                _ => self.error("invalid define-fun command".into()),
            },
            "assert" => match l {
                [_, body] => {
                    let t = match self.parse_term_checked(body) {
                        Ok(t) => t,
                        Err(e) => return self.error(e),
                    };
                    if self.terms.sort(t) != Sort::Bool {
                        return self.error(format!(
                            "invalid assert command, term is not Bool but {}",
                            self.terms.sort(t).show()
                        ));
                    }
                    let lit = match self.blaster.bool_lit(&self.terms, t) {
                        Ok(l) => l,
                        Err(e) => return self.error(e),
                    };
                    self.assertions.push((self.terms.level(), t, lit));
                    self.mode = Mode::Assert;
                    Self::silent()
                }
                _ => self.error("invalid assert command".into()),
            },
            "push" | "pop" => {
                let n: u64 = match l {
                    [_] => 1,
                    [_, Sexp::Num(n)] => match n.parse() {
                        Ok(n) => n,
                        Err(_) => return self.error("invalid numeral".into()),
                    },
                    _ => return self.error(format!("invalid {head} command, numeral expected")),
                };
                for _ in 0..n {
                    if head == "push" {
                        self.terms.push();
                    } else {
                        if !self.terms.pop() {
                            return self.error(
                                "invalid pop command, argument is greater than the current stack depth"
                                    .into(),
                            );
                        }
                        let lvl = self.terms.level();
                        self.assertions.retain(|(l, _, _)| *l <= lvl);
                    }
                }
                self.stats.max_push_depth = self.stats.max_push_depth.max(self.terms.level() as u64);
                self.mode = Mode::Assert;
                Self::silent()
            }
            "check-sat" => match l {
                [_] => self.check(vec![]),
                _ => self.error("invalid check-sat command".into()),
            },
            "check-sat-assuming" => {
                if !self.profile.check_sat_assuming {
                    return self.error("check-sat-assuming is not supported".into());
                }
                match l {
                    [_, Sexp::List(items)] => {
                        let mut assumps = vec![];
                        for it in items {
                            let t = match self.parse_term_checked(it) {
                                Ok(t) => t,
                                Err(e) => return self.error(e),
                            };
                            if self.terms.sort(t) != Sort::Bool {
                                return self.error(format!(
                                    "assumption is not Bool but {}",
                                    self.terms.sort(t).show()
                                ));
                            }
                            assumps.push((it.clone(), t));
                        }
                        self.check(assumps)
                    }
                    _ => self.error("invalid check-sat-assuming command, '(' expected".into()),
                }
            }
            "get-value" => match l {
                [_, Sexp::List(items)] if !items.is_empty() => {
                    if self.mode != Mode::Sat {
                        return self.error("model is not available".into());
                    }
                    let mut parts = vec![];
                    for it in items {
                        let t = match self.parse_term_checked(it) {
                            Ok(t) => t,
                            Err(e) => return self.error(e),
                        };
                        let v = self.eval_in_model(t);
                        let sort = self.terms.sort(t);
                        let printed = self.print_value(&v, sort);
                        self.given_values.push(GivenValue {
                            term_text: it.show(),
                            value: v,
                            sort,
                            printed: printed.clone(),
                        });
                        parts.push(format!("({} {})", it.show(), printed));
                    }
                    self.stats.get_values += 1;
                    let text = format!("({})", parts.join(" "));
                    Self::say(self.layout(&text))
                }
                _ => self.error("invalid get-value command, '(' expected".into()),
            },
            "get-unsat-assumptions" => {
                if !self.profile.unsat_assumptions {
                    return self.error("get-unsat-assumptions is not supported".into());
                }
                if l.len() != 1 {
                    return self.error("invalid get-unsat-assumptions command".into());
                }
                if !self.produce_unsat_assumptions {
                    return self.error(
                        "unsat assumptions construction is not enabled, use command (set-option :produce-unsat-assumptions true)"
                            .into(),
                    );
                }
                if self.mode != Mode::Unsat {
                    return self.error("unsat assumptions are not available".into());
                }
                self.stats.get_cores += 1;
                let mut idxs = self.last_core.clone();
                if self.policy.shuffle_core {
                    self.rng_print.shuffle(&mut idxs);
                }
                let respell = self.policy.respell_core && self.rng_print.chance(2, 3);
                if respell {
                    self.stats.respelled_cores += 1;
                }
                let mut parts = vec![];
                for i in idxs {
                    let (sx, t) = self.last_assumptions[i].clone();
                    if respell {
                        parts.push(self.print_term(t));
                    } else {
                        parts.push(sx.show());
                    }
                }
                let text = format!("({})", parts.join(" "));
                Self::say(self.layout(&text))
            }
            "exit" => Reply {
                text: String::new(),
                error: None,
                exit: Some(if self.had_error { 1 } else { 0 }),
            },
            "echo" => match l {
                [_, Sexp::Str(s)] => Self::say(format!("\"{s}\"\n")),
                _ => self.error("invalid echo command".into()),
            },
            "get-model" | "get-info" | "get-option" | "get-assertions" | "get-proof"
            | "get-unsat-core" | "get-assignment" | "reset" | "reset-assertions"
            | "declare-sort" | "define-sort" | "define-fun-rec" | "define-funs-rec"
            | "declare-datatype" | "declare-datatypes" | "define-const" => {
                self.error(format!("STUB-LIMIT: command {head} is not modelled"))
            }
            other => self.error(format!("unknown command: {other}")),
        }
    }

    fn leave_start(&mut self) {
        if self.mode == Mode::Start {
            self.mode = Mode::Assert;
        }
    }

    fn check_logic_sort(&self, sort: Sort) -> TResult<()> {
        if let Sort::Arr(..) = sort {
            if let Some(l) = &self.logic {
                if l == "QF_BV" || l == "QF_UFBV" || l == "QF_UF" {
                    return Err(format!("array sorts are not available in logic {l}"));
                }
            }
        }
        Ok(())
    }

    /// parse + profile-dependent checks
    fn parse_term_checked(&mut self, s: &Sexp) -> TResult<TermId> {
        // profile check for `(as const …)` is syntactic: look for it in the s-expression
        if contains_as_const(s) {
            let ok = match self.profile.const_array {
                ConstArrayMode::Always => true,
                ConstArrayMode::Never => false,
                ConstArrayMode::OnlyLogicAll => self.logic.as_deref() == Some("ALL") || self.logic.is_none(),
            };
            if !ok {
                return Err("unknown constant const ((as const …) is not supported here)".into());
            }
        }
        self.terms.parse_term(s)
    }

    fn check(&mut self, assumps: Vec<(Sexp, TermId)>) -> Reply {
        self.stats.checks += 1;
        self.leave_start();
        // blast assumptions
        let mut a_lits = vec![];
        for (_, t) in &assumps {
            match self.blaster.bool_lit(&self.terms, *t) {
                Ok(l) => a_lits.push(l),
                Err(e) => return self.error(e),
            }
        }
        let root_lits: Vec<Lit> = self.assertions.iter().map(|(_, _, l)| *l).collect();
        let mut all: Vec<Lit> = root_lits.clone();
        all.extend(a_lits.iter().copied());
        let sat = self
            .blaster
            .sat
            .solve(&all, self.rng_model.get_mut(), self.policy.polarity);
        self.last_assumptions = assumps;
        self.model.get_mut().clear();
        self.model_memo.clear();
        if sat {
            self.stats.sat += 1;
            // the SAT solver keeps the satisfying assignment; values of declared symbols are
            // extracted from it on demand (`eval_in_model`)
            self.blaster.sat.reset_to_root();
            // self-validation: every active assertion and assumption holds in the model (every
            // check of the first 64 of a session, every eighth afterwards: long PDR sessions
            // would otherwise spend most of their time here)
            let validate = self.stats.checks <= 64 || self.stats.checks % 8 == 0;
            let to_check: Vec<TermId> = self
                .assertions
                .iter()
                .map(|(_, t, _)| *t)
                .chain(self.last_assumptions.iter().map(|(_, t)| *t))
                .filter(|_| validate)
                .collect();
            for t in to_check {
                if !self.eval_in_model(t).bv().is_true() {
                    self.stub_failure = Some(format!(
                        "self-validation failed: model does not satisfy {}",
                        self.print_term(t)
                    ));
                }
            }
            self.mode = Mode::Sat;
            Self::say("sat\n".into())
        } else {
            self.stats.unsat += 1;
            // compute core over the assumptions (indices into last_assumptions)
            let n = a_lits.len();
            let core: Vec<usize> = match self.policy.core {
                CorePolicy::Full => {
                    self.stats.core_full += 1;
                    (0..n).collect()
                }
                CorePolicy::Minimal | CorePolicy::Mid => {
                    let mut keep: Vec<usize> = (0..n).collect();
                    let mut order: Vec<usize> = (0..n).collect();
                    self.rng_core.shuffle(&mut order);
                    for cand in order {
                        let trial: Vec<usize> = keep.iter().copied().filter(|i| *i != cand).collect();
                        let mut lits = root_lits.clone();
                        lits.extend(trial.iter().map(|i| a_lits[*i]));
                        let s = self.blaster.sat.solve(&lits, &mut self.rng_core, PolarityMode::Random);
                        self.blaster.sat.reset_to_root();
                        if !s {
                            keep = trial;
                        }
                    }
                    if self.policy.core == CorePolicy::Mid {
                        self.stats.core_mid += 1;
                        for i in 0..n {
                            if !keep.contains(&i) && self.rng_core.chance(1, 2) {
                                keep.push(i);
                            }
                        }
                        keep.sort_unstable();
                    } else {
                        self.stats.core_minimal += 1;
                    }
                    keep
                }
            };
            // self-validation of the core
            {
                let mut lits = root_lits.clone();
                lits.extend(core.iter().map(|i| a_lits[*i]));
                let s = self.blaster.sat.solve(&lits, &mut self.rng_core, PolarityMode::Random);
                self.blaster.sat.reset_to_root();
                if s {
                    self.stub_failure = Some("self-validation failed: unsat core is satisfiable".into());
                }
            }
            self.stats.core_lits_in += n as u64;
            self.stats.core_lits_out += core.len() as u64;
            self.last_core = core;
            self.mode = Mode::Unsat;
            Self::say("unsat\n".into())
        }
    }

    fn dont_care_value(rng: &mut Rng, mode: PolarityMode, sort: Sort) -> Val {
        let pick = |rng: &mut Rng, mode: PolarityMode, w: u32| -> u128 {
            match mode {
                PolarityMode::Zeros => {
                    if rng.chance(1, 8) {
                        rng.bits_shaped(w)
                    } else {
                        0
                    }
                }
                PolarityMode::Ones => {
                    if rng.chance(1, 8) {
                        rng.bits_shaped(w)
                    } else {
                        crate::rng::mask(w)
                    }
                }
                _ => rng.bits_shaped(w),
            }
        };
        match sort {
            Sort::Bool => Val::B(Bv::new(1, pick(rng, mode, 1))),
            Sort::Bv(w) => Val::B(Bv::new(w, pick(rng, mode, w))),
            Sort::Arr(i, d) => {
                let mut a = Arr::constant(i.width(), d.width(), pick(rng, mode, d.width()));
                let n = rng.below(3);
                for _ in 0..n {
                    let idx = rng.bits_shaped(i.width());
                    let dv = rng.bits_shaped(d.width());
                    a = a.store(idx, dv);
                }
                Val::A(a)
            }
        }
    }

    pub fn eval_in_model(&mut self, t: TermId) -> Val {
        let model = &self.model;
        let terms = &self.terms;
        let blaster = &self.blaster;
        let rng = &self.rng_model;
        let mode = self.policy.polarity;
        let env = |id: u32| -> Val {
            if let Some(v) = model.borrow().get(&id) {
                return v.clone();
            }
            let sym = &terms.syms[id as usize];
            let s = sym.sort;
            if !terms.is_visible_declared(id) {
                // a symbol that is no longer visible cannot be referenced by a checked term
                return match s {
                    Sort::Bool => Val::B(Bv::new(1, 0)),
                    Sort::Bv(w) => Val::B(Bv::new(w, 0)),
                    Sort::Arr(i, d) => Val::A(Arr::constant(i.width(), d.width(), 0)),
                };
            }
            let v = match blaster.model_of(id, s) {
                Some(v) => v,
                None => Self::dont_care_value(&mut rng.borrow_mut(), mode, s),
            };
            model.borrow_mut().insert(id, v.clone());
            v
        };
        terms.eval(t, &env, &mut self.model_memo)
    }

    /// Out-of-band: evaluate a visible symbol (declared or defined) under a caller-provided
    /// assignment of the declared symbols.
    pub fn eval_symbol_under(&self, name: &str, env: &dyn Fn(&str, Sort) -> Val, memo: &mut FxHashMap<TermId, Val>) -> Option<Val> {
        let info = self.terms.lookup(name)?;
        let t = info.def.unwrap_or(info.var_term);
        let syms = &self.terms.syms;
        let e = |id: u32| -> Val {
            let s = &syms[id as usize];
            env(&s.name, s.sort)
        };
        Some(self.terms.eval(t, &e, memo))
    }

    // ---------------------------------------------------------------------------------------
    // printing
    // ---------------------------------------------------------------------------------------

    fn print_scalar(&mut self, v: Bv, sort: ESort) -> String {
        match sort {
            ESort::Bool => (if v.is_true() { "true" } else { "false" }).to_string(),
            ESort::Bv(w) => {
                if self.profile.hex_values && w % 4 == 0 {
                    self.stats.hex_values += 1;
                    let digits = (w / 4) as usize;
                    format!("#x{:0width$x}", v.v, width = digits)
                } else {
                    format!("#b{}", v.to_bin())
                }
            }
        }
    }

    pub fn print_value(&mut self, v: &Val, sort: Sort) -> String {
        match (v, sort) {
            (Val::B(b), Sort::Bool) => self.print_scalar(*b, ESort::Bool),
            (Val::B(b), Sort::Bv(w)) => self.print_scalar(*b, ESort::Bv(w)),
            (Val::A(a), Sort::Arr(i, d)) => {
                self.stats.array_values += 1;
                let sort_txt = sort.show();
                let mut entries: Vec<(u128, u128)> = a.map.iter().map(|(k, v)| (*k, *v)).collect();
                self.rng_print.shuffle(&mut entries);
                let mut default = a.default;
                // optionally move the default: choose another default and add explicit stores for
                // all indices that relied on it (only for small index widths)
                if i.width() <= 3 && self.rng_print.chance(1, 4) {
                    let new_default = self.rng_print.bits_shaped(d.width());
                    if new_default != default {
                        let have: Vec<u128> = entries.iter().map(|(k, _)| *k).collect();
                        for idx in 0..(1u128 << i.width()) {
                            if !have.contains(&idx) {
                                entries.push((idx, default));
                            }
                        }
                        self.rng_print.shuffle(&mut entries);
                        default = new_default;
                    }
                }
                let dtxt = self.print_scalar(Bv::new(d.width(), default), d);
                let mut txt = format!("((as const {sort_txt}) {dtxt})");
                // shadowed stores go innermost so that they are overwritten
                if self.policy.shadow_stores && !entries.is_empty() && self.rng_print.chance(1, 2) {
                    self.stats.shadow_values += 1;
                    let (k, v) = entries[self.rng_print.usize_below(entries.len())];
                    let other = v ^ 1;
                    let ktxt = self.print_scalar(Bv::new(i.width(), k), i);
                    let vtxt = self.print_scalar(Bv::new(d.width(), other), d);
                    txt = format!("(store {txt} {ktxt} {vtxt})");
                }
                let use_let = self.policy.lets && !entries.is_empty() && self.rng_print.chance(1, 2);
                // now and then every level binds the same name again (each shadows the outer one)
                let same_name = use_let && self.rng_print.chance(1, 4);
                let mut let_wrap: Vec<(String, String)> = vec![];
                for (n, (k, v)) in entries.iter().enumerate() {
                    let ktxt = self.print_scalar(Bv::new(i.width(), *k), i);
                    let vtxt = self.print_scalar(Bv::new(d.width(), *v), d);
                    if use_let && self.rng_print.chance(1, 2) {
                        let name = if same_name { "a!1".to_string() } else { format!("a!{}", n + 1) };
                        let_wrap.push((name.clone(), txt));
                        txt = format!("(store {name} {ktxt} {vtxt})");
                    } else {
                        txt = format!("(store {txt} {ktxt} {vtxt})");
                    }
                }
                if !let_wrap.is_empty() {
                    self.stats.let_values += 1;
                }
                for (name, def) in let_wrap.into_iter().rev() {
                    txt = format!("(let (({name} {def})) {txt})");
                }
                txt
            }
            _ => unreachable!("value/sort mismatch"),
        }
    }

    /// prints a term from the internal DAG (definitions inlined, literals in solver spelling)
    pub fn print_term(&mut self, t: TermId) -> String {
        // recursive with explicit memo on strings would blow up on DAGs; assumptions are small
        let term = self.terms.terms[t as usize].clone();
        let args: Vec<String> = term.args.iter().map(|a| self.print_term(*a)).collect();
        let app = |f: &str| format!("({} {})", f, args.join(" "));
        match term.op {
            Op::Var(id) => quote_symbol(&self.terms.syms[id as usize].name),
            Op::True => "true".into(),
            Op::False => "false".into(),
            Op::BvLit(w, v) => self.print_scalar(Bv::new(w, v), ESort::Bv(w)),
            Op::Not => app("not"),
            Op::And => app("and"),
            Op::Or => app("or"),
            Op::Xor => app("xor"),
            Op::Implies => app("=>"),
            Op::Eq => app("="),
            Op::Ite => app("ite"),
            Op::BvNot => app("bvnot"),
            Op::BvNeg => app("bvneg"),
            Op::Bin(op) => app(match op {
                BinOp::And => "bvand",
                BinOp::Or => "bvor",
                BinOp::Xor => "bvxor",
                BinOp::Add => "bvadd",
                BinOp::Sub => "bvsub",
                BinOp::Mul => "bvmul",
                BinOp::Udiv => "bvudiv",
                BinOp::Urem => "bvurem",
                BinOp::Sdiv => "bvsdiv",
                BinOp::Srem => "bvsrem",
                BinOp::Smod => "bvsmod",
                BinOp::Shl => "bvshl",
                BinOp::Lshr => "bvlshr",
                BinOp::Ashr => "bvashr",
            }),
            Op::Cmp(op) => app(match op {
                CmpOp::Ult => "bvult",
                CmpOp::Ule => "bvule",
                CmpOp::Ugt => "bvugt",
                CmpOp::Uge => "bvuge",
                CmpOp::Slt => "bvslt",
                CmpOp::Sle => "bvsle",
                CmpOp::Sgt => "bvsgt",
                CmpOp::Sge => "bvsge",
            }),
            Op::Concat => app("concat"),
            Op::Extract(hi, lo) => format!("((_ extract {hi} {lo}) {})", args[0]),
            Op::ZeroExt(k) => format!("((_ zero_extend {k}) {})", args[0]),
            Op::SignExt(k) => format!("((_ sign_extend {k}) {})", args[0]),
            Op::Select => app("select"),
            Op::Store => app("store"),
            Op::ConstArr(_) => format!("((as const {}) {})", term.sort.show(), args[0]),
        }
    }

    /// applies the layout policy (line breaks / extra spaces at token boundaries) and the
    /// terminating newline
    fn layout(&mut self, text: &str) -> String {
        if !self.policy.multiline || !self.rng_print.chance(2, 3) {
            return format!("{text}\n");
        }
        let mut out = String::with_capacity(text.len() + 16);
        let bytes = text.as_bytes();
        let mut in_quote = false;
        let mut broke = false;
        for (i, &c) in bytes.iter().enumerate() {
            if c == b'|' {
                in_quote = !in_quote;
            }
            if c == b' ' && !in_quote {
                match self.rng_print.below(6) {
                    0 => {
                        // a line break is only observable if the parens are unbalanced before it,
                        // which is always the case inside a reply list
                        out.push('\n');
                        out.push_str("  ");
                        broke = true;
                    }
                    1 => out.push_str("  "),
                    _ => out.push(' '),
                }
            } else {
                out.push(c as char);
            }
            let _ = i;
        }
        if broke {
            self.stats.multiline_replies += 1;
        }
        out.push('\n');
        out
    }
}

fn contains_as_const(s: &Sexp) -> bool {
    match s {
        Sexp::List(l) => {
            if let [Sexp::Sym(a), Sexp::Sym(c), _] = l.as_slice() {
                if a == "as" && c == "const" {
                    return true;
                }
            }
            l.iter().any(contains_as_const)
        }
        _ => false,
    }
}

/// Splits a byte stream into complete top-level s-expressions (commands).
#[derive(Default)]
pub struct CommandFramer {
    buf: Vec<u8>,
}

pub enum Framed {
    Command(Sexp, String),
    SyntaxError(String),
}

impl CommandFramer {
    pub fn push(&mut self, bytes: &[u8]) {
        self.buf.extend_from_slice(bytes);
    }

    pub fn pending_bytes(&self) -> usize {
        self.buf.iter().filter(|c| !c.is_ascii_whitespace()).count()
    }

    /// next complete command, if any
    pub fn next(&mut self) -> Option<Framed> {
        let mut r = Reader::new(&self.buf);
        r.streaming = true;
        match r.next() {
            Ok(None) => {
                self.buf.clear();
                None
            }
            Ok(Some(sx)) => {
                let used = r.pos;
                let raw = String::from_utf8_lossy(&self.buf[..used]).trim().to_string();
                self.buf.drain(..used);
                Some(Framed::Command(sx, raw))
            }
            Err(ReadError::Incomplete) => None,
            Err(ReadError::Syntax(e)) => {
                // drop the offending line
                let nl = self.buf.iter().position(|c| *c == b'\n').map(|p| p + 1).unwrap_or(self.buf.len());
                self.buf.drain(..nl);
                Some(Framed::SyntaxError(e))
            }
        }
    }
}
