//! SMT-LIB 2.6 lexer and s-expression reader (written from the standard's concrete syntax).

#[derive(Clone, Debug, PartialEq, Eq)]
pub enum Sexp {
    /// simple or quoted symbol; the stored name never includes the `|` quotes
    Sym(String),
    /// `:keyword`
    Keyword(String),
    /// numeral
    Num(String),
    /// decimal
    Dec(String),
    /// `#b…` (digits only)
    Bin(String),
    /// `#x…` (digits only)
    Hex(String),
    Str(String),
    List(Vec<Sexp>),
}

impl Sexp {
    pub fn sym(&self) -> Option<&str> {
        match self {
            Sexp::Sym(s) => Some(s),
            _ => None,
        }
    }
    pub fn list(&self) -> Option<&[Sexp]> {
        match self {
            Sexp::List(l) => Some(l),
            _ => None,
        }
    }
    pub fn show(&self) -> String {
        match self {
            Sexp::Sym(s) => quote_symbol(s),
            Sexp::Keyword(s) => format!(":{s}"),
            Sexp::Num(s) | Sexp::Dec(s) => s.clone(),
            Sexp::Bin(s) => format!("#b{s}"),
            Sexp::Hex(s) => format!("#x{s}"),
            Sexp::Str(s) => format!("\"{}\"", s.replace('"', "\"\"")),
            Sexp::List(l) => {
                let inner: Vec<String> = l.iter().map(|e| e.show()).collect();
                format!("({})", inner.join(" "))
            }
        }
    }
}

pub fn is_simple_symbol_char(c: u8) -> bool {
    c.is_ascii_alphanumeric() || b"~!@$%^&*_-+=<>.?/".contains(&c)
}

pub fn is_simple_symbol(s: &str) -> bool {
    !s.is_empty()
        && s.bytes().all(is_simple_symbol_char)
        && !s.as_bytes()[0].is_ascii_digit()
}

pub fn quote_symbol(s: &str) -> String {
    if is_simple_symbol(s) {
        s.to_string()
    } else {
        format!("|{s}|")
    }
}

#[derive(Debug, Clone, PartialEq, Eq)]
pub enum ReadError {
    /// input ended inside an expression
    Incomplete,
    Syntax(String),
}

pub struct Reader<'a> {
    s: &'a [u8],
    pub pos: usize,
    /// the input is a prefix of a stream: an atom that touches the end may still be growing
    pub streaming: bool,
}

impl<'a> Reader<'a> {
    pub fn new(s: &'a [u8]) -> Self {
        Reader {
            s,
            pos: 0,
            streaming: false,
        }
    }

    fn skip_ws(&mut self) {
        loop {
            while self.pos < self.s.len() && matches!(self.s[self.pos], b' ' | b'\t' | b'\r' | b'\n')
            {
                self.pos += 1;
            }
            if self.pos < self.s.len() && self.s[self.pos] == b';' {
                while self.pos < self.s.len() && self.s[self.pos] != b'\n' {
                    self.pos += 1;
                }
            } else {
                return;
            }
        }
    }

    pub fn at_end(&mut self) -> bool {
        self.skip_ws();
        self.pos >= self.s.len()
    }

    /// reads the next s-expression; `Ok(None)` at end of input
    pub fn next(&mut self) -> Result<Option<Sexp>, ReadError> {
        self.skip_ws();
        if self.pos >= self.s.len() {
            return Ok(None);
        }
        self.read().map(Some)
    }

    fn read(&mut self) -> Result<Sexp, ReadError> {
        self.skip_ws();
        if self.pos >= self.s.len() {
            return Err(ReadError::Incomplete);
        }
        let c = self.s[self.pos];
        match c {
            b'(' => {
                self.pos += 1;
                let mut items = vec![];
                loop {
                    self.skip_ws();
                    if self.pos >= self.s.len() {
                        return Err(ReadError::Incomplete);
                    }
                    if self.s[self.pos] == b')' {
                        self.pos += 1;
                        return Ok(Sexp::List(items));
                    }
                    items.push(self.read()?);
                }
            }
            b')' => Err(ReadError::Syntax("unexpected ')'".into())),
            b'|' => {
                let start = self.pos + 1;
                let mut p = start;
                while p < self.s.len() && self.s[p] != b'|' {
                    if self.s[p] == b'\\' {
                        return Err(ReadError::Syntax("backslash in quoted symbol".into()));
                    }
                    p += 1;
                }
                if p >= self.s.len() {
                    return Err(ReadError::Incomplete);
                }
                let name = std::str::from_utf8(&self.s[start..p])
                    .map_err(|_| ReadError::Syntax("invalid utf-8 in symbol".into()))?;
                self.pos = p + 1;
                Ok(Sexp::Sym(name.to_string()))
            }
            b'"' => {
                let mut p = self.pos + 1;
                let mut out = Vec::new();
                loop {
                    if p >= self.s.len() {
                        return Err(ReadError::Incomplete);
                    }
                    if self.s[p] == b'"' {
                        if p + 1 < self.s.len() && self.s[p + 1] == b'"' {
                            out.push(b'"');
                            p += 2;
                            continue;
                        }
                        break;
                    }
                    out.push(self.s[p]);
                    p += 1;
                }
                self.pos = p + 1;
                Ok(Sexp::Str(String::from_utf8_lossy(&out).to_string()))
            }
            b'#' => {
                let start = self.pos;
                let mut p = self.pos + 1;
                while p < self.s.len() && (self.s[p].is_ascii_alphanumeric()) {
                    p += 1;
                }
                let tok = std::str::from_utf8(&self.s[start..p]).unwrap();
                if self.streaming && p >= self.s.len() {
                    // the literal may continue in bytes that have not arrived yet
                    return Err(ReadError::Incomplete);
                }
                self.pos = p;
                if let Some(d) = tok.strip_prefix("#b") {
                    if !d.is_empty() && d.bytes().all(|c| c == b'0' || c == b'1') {
                        return Ok(Sexp::Bin(d.to_string()));
                    }
                } else if let Some(d) = tok.strip_prefix("#x") {
                    if !d.is_empty() && d.bytes().all(|c| c.is_ascii_hexdigit()) {
                        return Ok(Sexp::Hex(d.to_string()));
                    }
                }
                Err(ReadError::Syntax(format!("invalid literal `{tok}`")))
            }
            b':' => {
                let start = self.pos + 1;
                let mut p = start;
                while p < self.s.len() && is_simple_symbol_char(self.s[p]) {
                    p += 1;
                }
                if self.streaming && p >= self.s.len() {
                    return Err(ReadError::Incomplete);
                }
                if p == start {
                    return Err(ReadError::Syntax("empty keyword".into()));
                }
                self.pos = p;
                Ok(Sexp::Keyword(
                    String::from_utf8_lossy(&self.s[start..p]).to_string(),
                ))
            }
            c if c.is_ascii_digit() => {
                let start = self.pos;
                let mut p = start;
                while p < self.s.len() && self.s[p].is_ascii_digit() {
                    p += 1;
                }
                let mut dec = false;
                if p + 1 < self.s.len() && self.s[p] == b'.' && self.s[p + 1].is_ascii_digit() {
                    dec = true;
                    p += 1;
                    while p < self.s.len() && self.s[p].is_ascii_digit() {
                        p += 1;
                    }
                }
                if self.streaming && p >= self.s.len() {
                    return Err(ReadError::Incomplete);
                }
                // a numeral must be followed by a delimiter
                if p < self.s.len() && is_simple_symbol_char(self.s[p]) {
                    return Err(ReadError::Syntax("symbol must not start with a digit".into()));
                }
                let tok = String::from_utf8_lossy(&self.s[start..p]).to_string();
                self.pos = p;
                if dec { Ok(Sexp::Dec(tok)) } else { Ok(Sexp::Num(tok)) }
            }
            c if is_simple_symbol_char(c) => {
                let start = self.pos;
                let mut p = start;
                while p < self.s.len() && is_simple_symbol_char(self.s[p]) {
                    p += 1;
                }
                if self.streaming && p >= self.s.len() {
                    return Err(ReadError::Incomplete);
                }
                self.pos = p;
                Ok(Sexp::Sym(
                    String::from_utf8_lossy(&self.s[start..p]).to_string(),
                ))
            }
            other => Err(ReadError::Syntax(format!(
                "unexpected character {:?}",
                other as char
            ))),
        }
    }
}

/// parse exactly one s-expression from a string
pub fn parse_one(s: &str) -> Result<Sexp, ReadError> {
    let mut r = Reader::new(s.as_bytes());
    let e = r.next()?.ok_or(ReadError::Incomplete)?;
    if !r.at_end() {
        return Err(ReadError::Syntax("trailing input".into()));
    }
    Ok(e)
}
