//! Swarm-style generator of small, well-formed abstract transition systems.

use crate::refsem::sys::*;
use crate::rng::{Rng, mask};
use crate::val::{BinOp, CmpOp};

#[derive(Clone, Debug)]
pub struct GenCfg {
    pub max_state_bits: u32,
    pub max_input_bits: u32,
    pub arrays: bool,
    pub division: bool,
    /// allow a state that has an init but no next function (free in MC semantics, held by the simulator)
    pub init_without_next: bool,
    pub neg_refs: bool,
    pub named_nodes: bool,
    pub quoted_names: bool,
    pub max_bads: usize,
    pub max_constraints: usize,
    pub max_outputs: usize,
    pub max_nodes: usize,
    /// probability (in 1/16) that a state has no init
    pub no_init_16: u64,
    pub wide: bool,
    /// counters / shift registers with bad states deep in the state space
    pub structured: bool,
    /// number of conjuncts in a bad-state condition
    pub bad_conj: usize,
    /// give some nodes names that look like names patronus generates itself (`__n5`, `s0@0`, ...)
    pub clash_names: bool,
    /// widths on both sides of the 32/64/128-bit word boundaries, more states and inputs; only for
    /// checks whose oracle does not enumerate the state space
    pub huge: bool,
}

impl GenCfg {
    /// a random configuration (swarm): features are switched on and off per run
    pub fn swarm(rng: &mut Rng, max_state_bits: u32, max_input_bits: u32) -> Self {
        GenCfg {
            max_state_bits: rng.range(1, max_state_bits as u64) as u32,
            max_input_bits: rng.range(0, max_input_bits as u64) as u32,
            arrays: rng.chance(1, 3),
            division: rng.chance(1, 4),
            init_without_next: false,
            neg_refs: rng.chance(1, 2),
            named_nodes: rng.chance(1, 2),
            quoted_names: rng.chance(1, 4),
            max_bads: 1 + rng.usize_below(3),
            max_constraints: rng.usize_below(3),
            max_outputs: rng.usize_below(3),
            max_nodes: 4 + rng.usize_below(24),
            no_init_16: *rng.pick(&[0, 0, 2, 4, 8]),
            wide: rng.chance(1, 8),
            structured: rng.chance(1, 2),
            bad_conj: 1 + rng.usize_below(3),
            clash_names: false,
            huge: false,
        }
    }
}

struct Meta {
    /// bit i set: depends on state i
    state_deps: u64,
    uses_input: bool,
}

#[derive(Clone, Copy, PartialEq, Eq)]
enum StatePlan {
    Normal,
    Const,
    /// neither init nor next: the reader turns it into an input
    Orphan,
    /// init but no next
    NoNext,
}

struct G<'a> {
    rng: &'a mut Rng,
    cfg: &'a GenCfg,
    sys: Sys,
    meta: Vec<Meta>,
    plan: Vec<StatePlan>,
}

impl<'a> G<'a> {
    fn add(&mut self, op: NOp, args: Vec<NodeId>, neg: Vec<bool>, ty: Ty) -> NodeId {
        let mut deps = 0u64;
        let mut ui = false;
        for a in &args {
            deps |= self.meta[*a].state_deps;
            ui |= self.meta[*a].uses_input;
        }
        match op {
            NOp::State(i) => {
                deps |= 1 << i;
                if self.plan[i] == StatePlan::Orphan {
                    ui = true;
                }
            }
            NOp::Input(_) => ui = true,
            _ => {}
        }
        self.meta.push(Meta {
            state_deps: deps,
            uses_input: ui,
        });
        self.sys.add(op, args, neg, ty)
    }

    fn konst(&mut self, w: u32, v: u128) -> NodeId {
        self.add(NOp::Const(v & mask(w)), vec![], vec![], Ty::Bv(w))
    }

    fn nodes_of(&self, ty: Ty) -> Vec<NodeId> {
        (0..self.sys.nodes.len())
            .filter(|n| self.sys.nodes[*n].ty == ty)
            .collect()
    }

    fn any_bv_node(&mut self) -> NodeId {
        let c: Vec<NodeId> = (0..self.sys.nodes.len())
            .filter(|n| self.sys.nodes[*n].ty.is_bv())
            .collect();
        if c.is_empty() || self.rng.chance(1, 10) {
            let w = self.pick_width();
            let v = self.rng.bits_shaped(w);
            self.konst(w, v)
        } else {
            *self.rng.pick(&c)
        }
    }

    fn pick_width(&mut self) -> u32 {
        if self.cfg.huge && self.rng.chance(1, 2) {
            return *self.rng.pick(&[8, 16, 31, 32, 33, 63, 64, 65, 127, 128]);
        }
        if self.cfg.wide && self.rng.chance(1, 3) {
            *self.rng.pick(&[8, 8, 12, 16])
        } else {
            *self.rng.pick(&[1, 1, 2, 2, 3, 3, 4])
        }
    }

    /// an existing node of bit-vector width `w`, or a fresh constant
    fn bv_of_width(&mut self, w: u32) -> NodeId {
        let c = self.nodes_of(Ty::Bv(w));
        if c.is_empty() || self.rng.chance(1, 5) {
            let v = self.rng.bits_shaped(w);
            self.konst(w, v)
        } else {
            *self.rng.pick(&c)
        }
    }

    fn neg_flag(&mut self) -> bool {
        self.cfg.neg_refs && self.rng.chance(1, 8)
    }

    /// builds one random well-typed node on top of the existing ones
    fn random_node(&mut self) {
        let arrays: Vec<NodeId> = (0..self.sys.nodes.len())
            .filter(|n| !self.sys.nodes[*n].ty.is_bv())
            .collect();
        let choice = self.rng.below(if arrays.is_empty() { 16 } else { 20 });
        match choice {
            0 => {
                let a = self.any_bv_node();
                let ty = self.sys.ty(a);
                let op = *self.rng.pick(&[NOp::Not, NOp::Neg]);
                let ng = self.neg_flag();
                self.add(op, vec![a], vec![ng], ty);
            }
            1 => {
                let a = self.any_bv_node();
                let op = *self.rng.pick(&[NOp::Redand, NOp::Redor, NOp::Redxor]);
                let ng = self.neg_flag();
                self.add(op, vec![a], vec![ng], Ty::Bv(1));
            }
            2..=5 => {
                let a = self.any_bv_node();
                let w = self.sys.ty(a).width();
                let b = self.bv_of_width(w);
                let mut ops = vec![
                    NOp::Bin(BinOp::And),
                    NOp::Bin(BinOp::Or),
                    NOp::Bin(BinOp::Xor),
                    NOp::Bin(BinOp::Add),
                    NOp::Bin(BinOp::Sub),
                    NOp::Bin(BinOp::Mul),
                    NOp::Bin(BinOp::Shl),
                    NOp::Bin(BinOp::Lshr),
                    NOp::Bin(BinOp::Ashr),
                    NOp::Nand,
                    NOp::Nor,
                    NOp::Xnor,
                ];
                if self.cfg.division {
                    ops.extend([
                        NOp::Bin(BinOp::Udiv),
                        NOp::Bin(BinOp::Urem),
                        NOp::Bin(BinOp::Sdiv),
                        NOp::Bin(BinOp::Srem),
                        NOp::Bin(BinOp::Smod),
                    ]);
                }
                let op = *self.rng.pick(&ops);
                let (n0, n1) = (self.neg_flag(), self.neg_flag());
                self.add(op, vec![a, b], vec![n0, n1], Ty::Bv(w));
            }
            6..=8 => {
                let a = self.any_bv_node();
                let w = self.sys.ty(a).width();
                let b = self.bv_of_width(w);
                let op = *self.rng.pick(&[
                    NOp::Eq,
                    NOp::Neq,
                    NOp::Cmp(CmpOp::Ult),
                    NOp::Cmp(CmpOp::Ule),
                    NOp::Cmp(CmpOp::Ugt),
                    NOp::Cmp(CmpOp::Uge),
                    NOp::Cmp(CmpOp::Slt),
                    NOp::Cmp(CmpOp::Sle),
                    NOp::Cmp(CmpOp::Sgt),
                    NOp::Cmp(CmpOp::Sge),
                ]);
                let (n0, n1) = (self.neg_flag(), self.neg_flag());
                self.add(op, vec![a, b], vec![n0, n1], Ty::Bv(1));
            }
            9 => {
                let a = self.bv_of_width(1);
                let b = self.bv_of_width(1);
                let op = *self.rng.pick(&[NOp::Implies, NOp::Iff]);
                let (n0, n1) = (self.neg_flag(), self.neg_flag());
                self.add(op, vec![a, b], vec![n0, n1], Ty::Bv(1));
            }
            10 => {
                let a = self.any_bv_node();
                let b = self.any_bv_node();
                let w = self.sys.ty(a).width() + self.sys.ty(b).width();
                if w <= if self.cfg.huge { 128 } else { 16 } {
                    let (n0, n1) = (self.neg_flag(), self.neg_flag());
                    self.add(NOp::Concat, vec![a, b], vec![n0, n1], Ty::Bv(w));
                }
            }
            11 | 12 => {
                let a = self.any_bv_node();
                let w = self.sys.ty(a).width();
                let hi = self.rng.below(w as u64) as u32;
                let lo = self.rng.below(hi as u64 + 1) as u32;
                let ng = self.neg_flag();
                self.add(NOp::Slice(hi, lo), vec![a], vec![ng], Ty::Bv(hi - lo + 1));
            }
            13 => {
                let a = self.any_bv_node();
                let w = self.sys.ty(a).width();
                let k = self.rng.below(4) as u32;
                if w + k <= if self.cfg.huge { 128 } else { 16 } {
                    let op = if self.rng.bool() { NOp::Uext(k) } else { NOp::Sext(k) };
                    let ng = self.neg_flag();
                    self.add(op, vec![a], vec![ng], Ty::Bv(w + k));
                }
            }
            14 | 15 => {
                let c = self.bv_of_width(1);
                // ite over bit-vectors or arrays
                let t = if !arrays.is_empty() && self.rng.chance(1, 4) {
                    *self.rng.pick(&arrays)
                } else {
                    self.any_bv_node()
                };
                let ty = self.sys.ty(t);
                let e = match ty {
                    Ty::Bv(w) => self.bv_of_width(w),
                    arr => *self.rng.pick(&self.nodes_of(arr)),
                };
                let n0 = self.neg_flag();
                let (n1, n2) = if ty.is_bv() {
                    (self.neg_flag(), self.neg_flag())
                } else {
                    (false, false)
                };
                self.add(NOp::Ite, vec![c, t, e], vec![n0, n1, n2], ty);
            }
            16 | 17 => {
                let a = *self.rng.pick(&arrays);
                if let Ty::Arr(iw, dw) = self.sys.ty(a) {
                    let i = self.bv_of_width(iw);
                    let ng = self.neg_flag();
                    self.add(NOp::Read, vec![a, i], vec![false, ng], Ty::Bv(dw));
                }
            }
            _ => {
                let a = *self.rng.pick(&arrays);
                if let Ty::Arr(iw, dw) = self.sys.ty(a) {
                    let i = self.bv_of_width(iw);
                    let d = self.bv_of_width(dw);
                    let (n1, n2) = (self.neg_flag(), self.neg_flag());
                    self.add(NOp::Write, vec![a, i, d], vec![false, n1, n2], Ty::Arr(iw, dw));
                }
            }
        }
    }

    /// counter / shift-register style next-state function for bit-vector state `i`
    fn structured_next(&mut self, i: usize) -> NodeId {
        let sn = self.sys.state_node(i);
        let ty = self.sys.ty(sn);
        let w = ty.width();
        let one = self.konst(w, 1);
        let en = self.bv_of_width(1);
        match self.rng.below(6) {
            0 => self.add(NOp::Bin(BinOp::Add), vec![sn, one], vec![false, false], ty),
            1 => {
                let inc = self.add(NOp::Bin(BinOp::Add), vec![sn, one], vec![false, false], ty);
                self.add(NOp::Ite, vec![en, inc, sn], vec![false, false, false], ty)
            }
            2 => {
                // shift register: (s << 1) | zext(en)
                let sh = self.add(NOp::Bin(BinOp::Shl), vec![sn, one], vec![false, false], ty);
                let z = self.add(NOp::Uext(w - 1), vec![en], vec![false], ty);
                self.add(NOp::Bin(BinOp::Or), vec![sh, z], vec![false, false], ty)
            }
            3 => self.add(NOp::Bin(BinOp::Sub), vec![sn, one], vec![false, false], ty),
            4 => {
                // saturating counter
                let max = self.konst(w, mask(w));
                let at_max = self.add(NOp::Eq, vec![sn, max], vec![false, false], Ty::Bv(1));
                let inc = self.add(NOp::Bin(BinOp::Add), vec![sn, one], vec![false, false], ty);
                self.add(NOp::Ite, vec![at_max, sn, inc], vec![false, false, false], ty)
            }
            _ => {
                let k = self.rng.bits_shaped(w) | 1;
                let c = self.konst(w, k);
                self.add(NOp::Bin(BinOp::Add), vec![sn, c], vec![false, false], ty)
            }
        }
    }

    /// a bad-state condition: conjunction of `n` 1-bit nodes, some of them `state == constant`
    fn bad_node(&mut self, n: usize) -> NodeId {
        let mut acc: Option<NodeId> = None;
        for _ in 0..n {
            let bv_states: Vec<usize> = (0..self.sys.states.len())
                .filter(|i| self.sys.states[*i].ty.is_bv())
                .collect();
            let lit = if !bv_states.is_empty() && (self.cfg.structured || self.rng.chance(1, 3)) && self.rng.chance(3, 4) {
                let i = *self.rng.pick(&bv_states);
                let sn = self.sys.state_node(i);
                let w = self.sys.ty(sn).width();
                let v = if self.rng.bool() { self.rng.below(12) as u128 } else { self.rng.bits_shaped(w) };
                let c = self.konst(w, v);
                self.add(NOp::Eq, vec![sn, c], vec![false, false], Ty::Bv(1))
            } else {
                self.bool_node(true)
            };
            acc = Some(match acc {
                None => lit,
                Some(a) => self.add(NOp::Bin(BinOp::And), vec![a, lit], vec![false, false], Ty::Bv(1)),
            });
        }
        acc.unwrap()
    }

    /// a 1-bit node, preferably one that depends on some state
    fn bool_node(&mut self, prefer_state: bool) -> NodeId {
        let c: Vec<NodeId> = self
            .nodes_of(Ty::Bv(1))
            .into_iter()
            .filter(|n| !prefer_state || self.meta[*n].state_deps != 0)
            .collect();
        if c.is_empty() || self.rng.chance(1, 6) {
            // build a comparison against a constant
            let a = self.any_bv_node();
            let w = self.sys.ty(a).width();
            let v = self.rng.bits_shaped(w);
            let k = self.konst(w, v);
            let op = *self.rng.pick(&[NOp::Eq, NOp::Eq, NOp::Neq, NOp::Cmp(CmpOp::Ugt), NOp::Cmp(CmpOp::Slt)]);
            self.add(op, vec![a, k], vec![false, false], Ty::Bv(1))
        } else {
            *self.rng.pick(&c)
        }
    }
}

thread_local! {
    /// names that look like SMT-LIB literals (`#b01`) and must therefore be quoted by the writer
    static LITERAL_NAMES: std::cell::Cell<bool> = const { std::cell::Cell::new(false) };
    /// names that are SMT-LIB reserved words / builtin functions (`true`, `let`, `and`)
    static RESERVED_NAMES: std::cell::Cell<bool> = const { std::cell::Cell::new(false) };
}

pub fn set_name_stress(literal_like: bool, reserved: bool) {
    LITERAL_NAMES.with(|l| l.set(literal_like));
    RESERVED_NAMES.with(|l| l.set(reserved));
}

fn fancy_name(rng: &mut Rng, base: &str, quoted: bool) -> String {
    if LITERAL_NAMES.with(|l| l.get()) && rng.chance(1, 3) {
        // unique per signal through the suffix of `base` (digits), still literal-shaped
        let k: String = base.chars().filter(|c| c.is_ascii_digit()).collect();
        let k: u32 = k.parse().unwrap_or(0);
        return match rng.below(3) {
            0 => format!("#b{:b}1", k),
            1 => format!("#x{:x}a", k),
            _ => format!("{k}.5"),
        };
    }
    if RESERVED_NAMES.with(|l| l.get()) && rng.chance(1, 4) {
        return rng.pick(&["true", "false", "let", "and", "not", "Bool", "_", "as", "ite", "bvadd", "select"]).to_string();
    }
    if !quoted || rng.chance(1, 2) {
        return base.to_string();
    }
    match rng.below(9) {
        0 => format!("{base}[0]"),
        1 => format!("top.{base}:x"),
        2 => format!("{base}#1"),
        3 => format!("${base}"),
        4 => format!("{base},a"),
        5 => format!("{base}'"),
        // legal inside |quoted symbols|: parentheses and double quotes (an odd number of them)
        6 => format!("{base}(0)"),
        7 => format!("{base}\"q"),
        _ => format!("{base})"),
    }
}

pub fn generate(rng: &mut Rng, cfg: &GenCfg) -> Sys {
    let mut g = G {
        rng,
        cfg,
        sys: Sys::default(),
        meta: vec![],
        plan: vec![],
    };
    g.sys.name = "gen".into();

    // inputs
    let mut ib = 0;
    let n_in = if cfg.huge { g.rng.below(8) } else { g.rng.below(4) };
    for i in 0..n_in {
        let w = if cfg.huge && g.rng.chance(1, 2) {
            *g.rng.pick(&[8u32, 32, 33, 64, 65, 128])
        } else {
            *g.rng.pick(&[1u32, 1, 2, 2, 3, 4])
        };
        if ib + w > cfg.max_input_bits {
            break;
        }
        ib += w;
        let name = fancy_name(g.rng, &format!("i{i}"), cfg.quoted_names);
        g.sys.inputs.push((name, Ty::Bv(w)));
        g.add(NOp::Input(i as usize), vec![], vec![], Ty::Bv(w));
    }
    // states
    let mut sb = 0;
    let n_st = if g.rng.chance(1, 16) { 0 } else if cfg.huge { g.rng.range(1, 8) } else { g.rng.range(1, 4) };
    for _ in 0..n_st {
        let ty = if cfg.arrays && g.rng.chance(1, 3) {
            let iw = g.rng.range(1, 2) as u32;
            let dw = g.rng.range(1, 3) as u32;
            Ty::Arr(iw, dw)
        } else if cfg.huge && g.rng.chance(1, 2) {
            Ty::Bv(*g.rng.pick(&[8u32, 16, 32, 33, 63, 64, 65, 127, 128]))
        } else if cfg.wide && g.rng.chance(1, 4) {
            Ty::Bv(8)
        } else {
            Ty::Bv(*g.rng.pick(&[1u32, 1, 2, 2, 3, 4]))
        };
        if sb + ty.bits() > cfg.max_state_bits {
            continue;
        }
        sb += ty.bits();
        let i = g.sys.states.len();
        let name = fancy_name(g.rng, &format!("s{i}"), cfg.quoted_names);
        g.sys.states.push(StateDef {
            name,
            ty,
            init: None,
            next: None,
        });
        let plan = match g.rng.below(16) {
            0 => StatePlan::Const,
            1 => StatePlan::Orphan,
            2 if cfg.init_without_next => StatePlan::NoNext,
            _ => StatePlan::Normal,
        };
        g.plan.push(plan);
        g.add(NOp::State(i), vec![], vec![], ty);
    }
    // expression pool
    let n_nodes = g.rng.range(2, cfg.max_nodes as u64);
    for _ in 0..n_nodes {
        g.random_node();
    }

    // init
    for i in 0..g.sys.states.len() {
        if g.plan[i] == StatePlan::Orphan
            || (g.plan[i] != StatePlan::NoNext && g.rng.chance(cfg.no_init_16, 16))
        {
            continue;
        }
        let ty = g.sys.states[i].ty;
        let allowed = (1u64 << i) - 1;
        let cands: Vec<NodeId> = g
            .nodes_of(ty)
            .into_iter()
            .filter(|n| {
                !g.meta[*n].uses_input
                    && g.meta[*n].state_deps & !allowed == 0
                    && !matches!(g.sys.nodes[*n].op, NOp::State(_))
            })
            .collect();
        let init = match ty {
            Ty::Bv(w) => {
                if !cands.is_empty() && g.rng.chance(1, 2) {
                    InitDef::Node(*g.rng.pick(&cands), g.cfg.neg_refs && g.rng.chance(1, 10))
                } else {
                    let v = if g.rng.chance(1, 2) { 0 } else { g.rng.bits_shaped(w) };
                    InitDef::Node(g.konst(w, v), false)
                }
            }
            Ty::Arr(_, dw) => {
                if !cands.is_empty() && g.rng.chance(1, 2) {
                    InitDef::Node(*g.rng.pick(&cands), false)
                } else {
                    // bit-vector assigned to the array: constant array
                    let bvc: Vec<NodeId> = g
                        .nodes_of(Ty::Bv(dw))
                        .into_iter()
                        .filter(|n| !g.meta[*n].uses_input && g.meta[*n].state_deps & !allowed == 0)
                        .collect();
                    if !bvc.is_empty() && g.rng.chance(1, 3) {
                        InitDef::ArrayFromBv(*g.rng.pick(&bvc), false)
                    } else {
                        let v = g.rng.bits_shaped(dw);
                        InitDef::ArrayFromBv(g.konst(dw, v), false)
                    }
                }
            }
        };
        g.sys.states[i].init = Some(init);
    }
    // next
    for i in 0..g.sys.states.len() {
        let ty = g.sys.states[i].ty;
        let sn = g.sys.state_node(i);
        let next = if g.plan[i] == StatePlan::Const {
            // constant state
            Some((sn, false))
        } else if g.plan[i] == StatePlan::Orphan || g.plan[i] == StatePlan::NoNext {
            None
        } else if cfg.structured && ty.is_bv() && ty.width() >= 2 && g.rng.chance(2, 3) {
            Some((g.structured_next(i), false))
        } else {
            let cands: Vec<NodeId> = g.nodes_of(ty).into_iter().filter(|n| *n != sn).collect();
            if cands.is_empty() {
                match ty {
                    Ty::Bv(w) => {
                        // s + 1
                        let one = g.konst(w, 1);
                        Some((g.add(NOp::Bin(BinOp::Add), vec![sn, one], vec![false, false], ty), false))
                    }
                    _ => Some((sn, false)),
                }
            } else {
                let n = *g.rng.pick(&cands);
                Some((n, ty.is_bv() && g.cfg.neg_refs && g.rng.chance(1, 10)))
            }
        };
        g.sys.states[i].next = next;
    }
    // a state that ended up with neither init nor next is an input for patronus; keep the AST in
    // the same shape: convert it here as the reader does (appended after the declared inputs).
    demote_orphan_states(&mut g.sys);

    // constraints (prefer ones that read inputs so that they rarely kill everything)
    let n_c = g.rng.usize_below(cfg.max_constraints + 1);
    for _ in 0..n_c {
        let n = g.bool_node(false);
        let ng = g.cfg.neg_refs && g.rng.chance(1, 6);
        g.sys.constraints.push((n, ng));
    }
    // bads
    let n_b = 1 + g.rng.usize_below(cfg.max_bads);
    for _ in 0..n_b {
        let conj = 1 + g.rng.usize_below(cfg.bad_conj);
        let n = g.bad_node(conj);
        let ng = g.cfg.neg_refs && conj == 1 && g.rng.chance(1, 6);
        g.sys.bads.push((n, ng));
    }
    // outputs
    let n_o = g.rng.usize_below(cfg.max_outputs + 1);
    for k in 0..n_o {
        let n = g.any_bv_node();
        g.sys.outputs.push((format!("o{k}"), n, false));
    }
    // names for some intermediate nodes
    if cfg.named_nodes {
        for n in 0..g.sys.nodes.len() {
            let leaf = matches!(g.sys.nodes[n].op, NOp::Input(_) | NOp::State(_));
            if !leaf && g.rng.chance(1, 4) {
                let name = if cfg.clash_names && g.rng.chance(1, 6) {
                    // names that look like the ones patronus generates itself, or like another
                    // signal's per-step symbol
                    match g.rng.below(6) {
                        0 => format!("__n{}", g.rng.below(12)),
                        1 => "_bad".to_string(),
                        2 => "_constraint_0".to_string(),
                        3 => "_input_0".to_string(),
                        4 => "s0@0".to_string(),
                        _ => "__pdr_act_0".to_string(),
                    }
                } else {
                    fancy_name(g.rng, &format!("n{n}"), cfg.quoted_names)
                };
                g.sys.node_names.insert(n, name);
            }
        }
    }
    g.sys
}

/// states with neither init nor next become inputs (as `btor2::parse_str` does), appended after
/// the declared inputs in state order
pub fn demote_orphan_states(sys: &mut Sys) {
    let orphan: Vec<usize> = (0..sys.states.len())
        .filter(|i| sys.states[*i].init.is_none() && sys.states[*i].next.is_none())
        .collect();
    if orphan.is_empty() {
        return;
    }
    // new indices
    let mut new_state_idx = vec![usize::MAX; sys.states.len()];
    let mut new_input_idx = vec![usize::MAX; sys.states.len()];
    let mut kept = vec![];
    for (i, st) in sys.states.iter().enumerate() {
        if orphan.contains(&i) {
            new_input_idx[i] = sys.inputs.len();
            sys.orphan_inputs.push(sys.inputs.len());
            sys.inputs.push((st.name.clone(), st.ty));
        } else {
            new_state_idx[i] = kept.len();
            kept.push(st.clone());
        }
    }
    for node in sys.nodes.iter_mut() {
        if let NOp::State(i) = node.op {
            node.op = if new_input_idx[i] != usize::MAX {
                NOp::Input(new_input_idx[i])
            } else {
                NOp::State(new_state_idx[i])
            };
        }
    }
    sys.states = kept;
}

/// true if some name in the system looks like a name patronus' encodings generate themselves
pub fn has_clash_names(sys: &Sys) -> bool {
    let clash = |n: &str| -> bool {
        n.starts_with("__n")
            || n.starts_with("__pdr_act_")
            || n.starts_with("_bad")
            || n.starts_with("_constraint")
            || n.starts_with("_input")
            || n.starts_with("_state")
            || n.starts_with("_output")
            || n.rsplit_once('@').map(|(_, k)| !k.is_empty() && k.bytes().all(|c| c.is_ascii_digit())).unwrap_or(false)
    };
    sys.node_names.values().any(|n| clash(n))
        || sys.states.iter().any(|s| clash(&s.name))
        || sys.inputs.iter().any(|s| clash(&s.0))
        || sys.outputs.iter().any(|s| clash(&s.0))
}
