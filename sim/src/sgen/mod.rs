pub mod sysgen;
