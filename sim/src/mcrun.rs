//! Drives patronus' model-checking pipeline (as `tools/mc` does) inside the simulation.

use crate::harness::*;
use crate::refsem::sys::*;
use crate::transport::*;
use crate::val::*;
use patronus::expr::Context;
use patronus::mc::{InitValue, ModelCheckResult, Witness};
use patronus::smt::{BITWUZLA, CVC5, Solver, SolverMetaData, YICES2, Z3};
use patronus::system::TransitionSystem;

#[derive(Clone, Debug, PartialEq, Eq)]
pub enum Engine {
    Bmc {
        individually: bool,
        check_constraints: bool,
        k: u64,
    },
    Pdr {
        disable_cores: bool,
    },
}

#[derive(Clone, Debug, PartialEq, Eq)]
pub struct McCfg {
    /// 0 bitwuzla, 1 yices2, 2 z3, 3 cvc5
    pub profile: usize,
    pub engine: Engine,
    pub simplify: bool,
}

impl McCfg {
    pub fn describe(&self) -> String {
        format!(
            "profile={} simplify={} engine={:?}",
            PROFILE_NAMES[self.profile], self.simplify, self.engine
        )
    }
}

pub const PROFILE_NAMES: [&str; 4] = ["bitwuzla", "yices2", "z3", "cvc5"];

pub fn solver_const(profile: usize) -> patronus::smt::SmtLibSolver {
    match profile {
        0 => BITWUZLA,
        1 => YICES2,
        2 => Z3,
        _ => CVC5,
    }
}

#[derive(Clone, Debug, PartialEq)]
pub struct WitnessData {
    pub init: Vec<Option<Val>>,
    pub init_names: Vec<Option<String>>,
    pub inputs: Vec<Vec<Option<Val>>>,
    pub input_names: Vec<Option<String>>,
    pub failed_safety: Vec<u32>,
}

#[derive(Clone, Debug, PartialEq)]
pub enum Verdict {
    Success,
    Unknown,
    Fail(WitnessData),
}

impl Verdict {
    pub fn short(&self) -> &'static str {
        match self {
            Verdict::Success => "Success",
            Verdict::Unknown => "Unknown",
            Verdict::Fail(_) => "Fail",
        }
    }
}

pub fn convert_witness(w: &Witness) -> WitnessData {
    WitnessData {
        init: w
            .init
            .iter()
            .map(|v| match v {
                InitValue::BitVec(b) => Some(Val::B(bv_from_baa(b))),
                InitValue::Array(a, _) => Some(val_from_baa(&baa::Value::Array(a.clone()))),
                InitValue::None => None,
            })
            .collect(),
        init_names: w.init_names.clone(),
        inputs: w
            .inputs
            .iter()
            .map(|step| step.iter().map(|v| v.as_ref().map(val_from_baa)).collect())
            .collect(),
        input_names: w.input_names.clone(),
        failed_safety: w.failed_safety.clone(),
    }
}

/// information about the parsed system that oracles compare against the abstract system
#[derive(Clone, Debug, Default)]
pub struct ParsedInfo {
    pub state_names: Vec<String>,
    pub input_names: Vec<String>,
    pub n_bads: usize,
    pub n_constraints: usize,
}

pub fn parsed_info(ctx: &Context, sys: &TransitionSystem) -> ParsedInfo {
    ParsedInfo {
        state_names: sys
            .states
            .iter()
            .map(|s| ctx.get_symbol_name(s.symbol).unwrap().to_string())
            .collect(),
        input_names: sys
            .inputs
            .iter()
            .map(|s| ctx.get_symbol_name(*s).unwrap().to_string())
            .collect(),
        n_bads: sys.bad_states.len(),
        n_constraints: sys.constraints.len(),
    }
}

pub struct McRun {
    pub outcome: Outcome<Verdict>,
    pub parsed: Option<ParsedInfo>,
    /// if the call returned `Error::FromSolver(_, msg)`: the message as carried by the error
    pub from_solver_msg: Option<String>,
    /// variant name of the returned error
    pub err_variant: Option<&'static str>,
}

pub fn err_variant(e: &patronus::smt::Error) -> &'static str {
    use patronus::smt::Error::*;
    match e {
        Io(_) => "Io",
        StackUnderflow => "StackUnderflow",
        FromSolver(..) => "FromSolver",
        SolverDead(_) => "SolverDead",
        UnexpectedResponse(..) => "UnexpectedResponse",
        Parser(_) => "Parser",
    }
}

/// parse -> (simplify) -> start solver -> bmc / pdr, all real patronus code
pub fn run_mc(world: &WorldRef, btor2: &str, cfg: &McCfg) -> McRun {
    let mut parsed: Option<ParsedInfo> = None;
    let mut from_solver_msg: Option<String> = None;
    let mut variant: Option<&'static str> = None;
    let outcome = guarded_with_world(world, || {
        let mut ctx = Context::default();
        let mut sys = patronus::btor2::parse_str(&mut ctx, btor2, Some("gen"))
            .ok_or_else(|| "HARNESS: btor2 reader rejected a generated system".to_string())?;
        if cfg.simplify {
            patronus::system::transform::simplify_expressions(&mut ctx, &mut sys);
        }
        parsed = Some(parsed_info(&ctx, &sys));
        let solver = solver_const(cfg.profile);
        let mut smt_ctx = solver.start(None).map_err(|e| {
            variant = Some(err_variant(&e));
            if let patronus::smt::Error::FromSolver(_, m) = &e {
                from_solver_msg = Some(m.clone());
            }
            format!("start: {e} [{e:?}]")
        })?;
        let res = match &cfg.engine {
            Engine::Bmc {
                individually,
                check_constraints,
                k,
            } => patronus::mc::bmc(
                &mut ctx,
                &mut smt_ctx,
                &sys,
                *check_constraints,
                *individually,
                *k,
            ),
            Engine::Pdr { disable_cores } => {
                let disable = *disable_cores || !solver.supports_get_unsat_assumptions();
                patronus::mc::pdr(&mut ctx, &mut smt_ctx, &sys, disable)
            }
        };
        match res {
            Ok(ModelCheckResult::Success) => Ok(Verdict::Success),
            Ok(ModelCheckResult::Unknown) => Ok(Verdict::Unknown),
            Ok(ModelCheckResult::Fail(w)) => Ok(Verdict::Fail(convert_witness(&w))),
            Err(e) => {
                variant = Some(err_variant(&e));
                if let patronus::smt::Error::FromSolver(_, m) = &e {
                    from_solver_msg = Some(m.clone());
                }
                Err(format!("{e} [{e:?}]"))
            }
        }
    });
    McRun {
        outcome,
        parsed,
        from_solver_msg,
        err_variant: variant,
    }
}

/// C03's oracle: replays a witness in the reference semantics.
/// `names`: the state and input names of the system as patronus holds it (the btor2 reader may
/// rename a state after a label that aliases it).
pub fn check_witness(sys: &Sys, names: &ParsedInfo, wit: &WitnessData) -> Result<(), String> {
    let ns = sys.states.len();
    let ni = sys.inputs.len();
    if wit.init.len() != ns || wit.init_names.len() != ns {
        return Err(format!(
            "witness has {} init values / {} init names for {} states",
            wit.init.len(),
            wit.init_names.len(),
            ns
        ));
    }
    if names.state_names.len() != ns || names.input_names.len() != ni {
        return Err(format!(
            "HARNESS: parsed system has {} states / {} inputs, abstract system {} / {}",
            names.state_names.len(),
            names.input_names.len(),
            ns,
            ni
        ));
    }
    for i in 0..ns {
        if wit.init_names[i].as_deref() != Some(names.state_names[i].as_str()) {
            return Err(format!(
                "state #{i} is named {:?} in the witness but `{}` in the system",
                wit.init_names[i], names.state_names[i]
            ));
        }
    }
    if wit.input_names.len() != ni {
        return Err(format!(
            "witness has {} input names for {} inputs",
            wit.input_names.len(),
            ni
        ));
    }
    for i in 0..ni {
        if wit.input_names[i].as_deref() != Some(names.input_names[i].as_str()) {
            return Err(format!(
                "input #{i} is named {:?} in the witness but `{}` in the system",
                wit.input_names[i], names.input_names[i]
            ));
        }
    }
    if wit.inputs.is_empty() {
        return Err("witness has no steps".into());
    }
    let check_ty = |v: &Val, ty: Ty, what: &str| -> Result<(), String> {
        let ok = match (v, ty) {
            (Val::B(b), Ty::Bv(w)) => b.w == w,
            (Val::A(a), Ty::Arr(i, d)) => a.iw == i && a.dw == d,
            _ => false,
        };
        if ok {
            Ok(())
        } else {
            Err(format!("{what} has value {} which does not fit type {ty:?}", v.show()))
        }
    };
    let mut states: Vec<Val> = Vec::with_capacity(ns);
    for (i, st) in sys.states.iter().enumerate() {
        match &wit.init[i] {
            None => return Err(format!("no initial value for state `{}`", st.name)),
            Some(v) => {
                check_ty(v, st.ty, &format!("state `{}`", st.name))?;
                states.push(v.clone());
            }
        }
    }
    let mut all_inputs: Vec<Vec<Val>> = vec![];
    for (k, step) in wit.inputs.iter().enumerate() {
        if step.len() != ni {
            return Err(format!("step {k} has {} input values for {} inputs", step.len(), ni));
        }
        let mut vals = vec![];
        for (i, v) in step.iter().enumerate() {
            match v {
                None => {
                    return Err(format!("no value for input `{}` in step {k}", sys.inputs[i].0));
                }
                Some(v) => {
                    check_ty(v, sys.inputs[i].1, &format!("input `{}`@{k}", sys.inputs[i].0))?;
                    vals.push(v.clone());
                }
            }
        }
        all_inputs.push(vals);
    }
    // init expressions agree with the witness' own values
    let mut expected = states.clone();
    sys.apply_init(&mut expected, &all_inputs[0]);
    for (i, st) in sys.states.iter().enumerate() {
        if st.init.is_some() && expected[i] != states[i] {
            return Err(format!(
                "state `{}` starts at {} but its init expression gives {}",
                st.name,
                states[i].show(),
                expected[i].show()
            ));
        }
    }
    let last = wit.inputs.len() - 1;
    for (k, inputs) in all_inputs.iter().enumerate() {
        let env = StepEnv {
            inputs: inputs.clone(),
            states: states.clone(),
        };
        let vals = sys.eval_all(&env);
        for (ci, c) in sys.constraints.iter().enumerate() {
            if !Sys::node_val(&vals, *c).bv().is_true() {
                return Err(format!("constraint #{ci} is violated in step {k} of the witness"));
            }
        }
        if k == last {
            let holding: Vec<u32> = sys.bads_holding(&vals).iter().map(|b| *b as u32).collect();
            if holding.is_empty() {
                return Err(format!("no bad state holds in the last step ({k}) of the witness"));
            }
            let mut listed = wit.failed_safety.clone();
            listed.sort_unstable();
            if listed != holding {
                return Err(format!(
                    "witness lists failed bad states {listed:?} but {holding:?} hold in the last step"
                ));
            }
        } else {
            let nx = sys.next_states(&vals);
            for (i, v) in nx.into_iter().enumerate() {
                match v {
                    Some(v) => states[i] = v,
                    None => {
                        return Err(format!(
                            "HARNESS: state `{}` has no next function; witness replay undefined",
                            sys.states[i].name
                        ));
                    }
                }
            }
        }
    }
    Ok(())
}

// -------------------------------------------------------------------------------------------------
// direct driver of the public unrolling API (C04)
// -------------------------------------------------------------------------------------------------

#[derive(Clone, Debug, PartialEq, Eq)]
pub enum SigKind {
    State,
    Input,
    Constraint,
    Bad,
}

#[derive(Clone, Debug)]
pub enum SigSym {
    /// name of the SMT symbol that stands for the signal in that step
    Symbol(String),
    /// the encoding returned a Boolean literal
    Literal(bool),
    /// something else (unexpected)
    Other(String),
}

#[derive(Clone, Debug)]
pub struct SignalAt {
    pub kind: SigKind,
    pub index: usize,
    pub step: u64,
    pub sym: SigSym,
}

#[derive(Clone, Debug, Default)]
pub struct EncodingInfo {
    pub signals: Vec<SignalAt>,
    pub parsed: ParsedInfo,
}

/// parse -> [simplify] -> start solver -> set-logic -> UnrollSmtEncoding::new / define_header /
/// init_at(entry) / unroll x n, then asks `get_signal_at` for every state, input, constraint and
/// bad state at every step.
pub fn run_encoding(
    world: &WorldRef,
    btor2: &str,
    profile: usize,
    simplify: bool,
    entry: u64,
    unrolls: u64,
    prior: Option<(u64, u64)>,
) -> Outcome<EncodingInfo> {
    use patronus::mc::{TransitionSystemEncoding, UnrollSmtEncoding};
    use patronus::smt::{Logic, SolverContext};
    guarded_with_world(world, || {
        let mut ctx = Context::default();
        let mut sys = patronus::btor2::parse_str(&mut ctx, btor2, Some("gen"))
            .ok_or_else(|| "HARNESS: btor2 reader rejected a generated system".to_string())?;
        if simplify {
            patronus::system::transform::simplify_expressions(&mut ctx, &mut sys);
        }
        let solver = solver_const(profile);
        let mut smt_ctx = solver.start(None).map_err(|e| format!("start: {e}"))?;
        // same choice of logic as `mc::bmc` / `mc::pdr`
        let logic = if smt_ctx.name() == "z3" {
            Logic::All
        } else if smt_ctx.supports_uf() {
            Logic::QfAufbv
        } else {
            Logic::QfAbv
        };
        smt_ctx.set_logic(logic.clone()).map_err(|e| format!("{e} [{e:?}]"))?;
        let mut enc = UnrollSmtEncoding::new(&mut ctx, &sys, false);
        enc.define_header(&mut smt_ctx).map_err(|e| format!("{e} [{e:?}]"))?;
        if let Some((entry0, unrolls0)) = prior {
            // an earlier use of the same encoder object: unroll from another step, then restart
            // the solver (a new process that knows none of the old symbols) and start over
            enc.init_at(&mut ctx, &mut smt_ctx, entry0)
                .map_err(|e| format!("{e} [{e:?}]"))?;
            for _ in 0..unrolls0 {
                enc.unroll(&mut ctx, &mut smt_ctx)
                    .map_err(|e| format!("{e} [{e:?}]"))?;
            }
            smt_ctx.restart().map_err(|e| format!("{e} [{e:?}]"))?;
            smt_ctx.set_logic(logic).map_err(|e| format!("{e} [{e:?}]"))?;
            enc.define_header(&mut smt_ctx).map_err(|e| format!("{e} [{e:?}]"))?;
        }
        enc.init_at(&mut ctx, &mut smt_ctx, entry)
            .map_err(|e| format!("{e} [{e:?}]"))?;
        for _ in 0..unrolls {
            enc.unroll(&mut ctx, &mut smt_ctx)
                .map_err(|e| format!("{e} [{e:?}]"))?;
        }
        let mut info = EncodingInfo {
            signals: vec![],
            parsed: parsed_info(&ctx, &sys),
        };
        let describe = |ctx: &Context, e: patronus::expr::ExprRef| -> SigSym {
            if let Some(name) = ctx.get_symbol_name(e) {
                SigSym::Symbol(name.to_string())
            } else if ctx[e].is_true() {
                SigSym::Literal(true)
            } else if ctx[e].is_false() {
                SigSym::Literal(false)
            } else {
                use patronus::expr::SerializableIrNode;
                SigSym::Other(e.serialize_to_str(ctx))
            }
        };
        for step in entry..=(entry + unrolls) {
            for (i, st) in sys.states.iter().enumerate() {
                let e = enc.get_signal_at(&ctx, st.symbol, step);
                info.signals.push(SignalAt { kind: SigKind::State, index: i, step, sym: describe(&ctx, e) });
            }
            for (i, inp) in sys.inputs.iter().enumerate() {
                let e = enc.get_signal_at(&ctx, *inp, step);
                info.signals.push(SignalAt { kind: SigKind::Input, index: i, step, sym: describe(&ctx, e) });
            }
            for (i, c) in sys.constraints.iter().enumerate() {
                let e = enc.get_signal_at(&ctx, *c, step);
                info.signals.push(SignalAt { kind: SigKind::Constraint, index: i, step, sym: describe(&ctx, e) });
            }
            for (i, b) in sys.bad_states.iter().enumerate() {
                let e = enc.get_signal_at(&ctx, *b, step);
                info.signals.push(SignalAt { kind: SigKind::Bad, index: i, step, sym: describe(&ctx, e) });
            }
        }
        Ok(info)
    })
}
