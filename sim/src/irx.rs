//! Independent evaluation of patronus IR expressions in the reference value domain
//! (reads `ctx[ExprRef]` structurally; does not use patronus' evaluator).

use crate::harness::bv_from_baa;
use crate::val::*;
use patronus::expr::{Context, Expr, ExprRef, ForEachChild, TypeCheck};
use rustc_hash::FxHashMap;

#[derive(Debug, Clone)]
pub enum IrxError {
    /// width above the reference domain's 128 bits
    TooWide(u32),
    /// symbol without a value
    Unbound(String),
}

pub fn expr_width(ctx: &Context, e: ExprRef) -> Option<u32> {
    e.get_bv_type(ctx)
}

/// Evaluates `root` with symbol values looked up by name. Iterative, memoised.
pub fn eval(
    ctx: &Context,
    root: ExprRef,
    env: &dyn Fn(&str) -> Option<Val>,
    memo: &mut FxHashMap<ExprRef, Val>,
) -> Result<Val, IrxError> {
    let mut stack = vec![root];
    while let Some(&e) = stack.last() {
        if memo.contains_key(&e) {
            stack.pop();
            continue;
        }
        let expr = &ctx[e];
        let mut ready = true;
        expr.for_each_child(|c| {
            if !memo.contains_key(c) {
                ready = false;
                stack.push(*c);
            }
        });
        if !ready {
            continue;
        }
        stack.pop();
        let g = |r: &ExprRef| -> &Val { &memo[r] };
        let b = |x: bool| Val::B(Bv::from_bool(x));
        let chk = |w: u32| -> Result<u32, IrxError> {
            if w == 0 || w > 128 { Err(IrxError::TooWide(w)) } else { Ok(w) }
        };
        let v = match expr {
            Expr::BVSymbol { name, width } => {
                chk(*width)?;
                let n = &ctx[*name];
                env(n).ok_or_else(|| IrxError::Unbound(n.to_string()))?
            }
            Expr::ArraySymbol { name, .. } => {
                let n = &ctx[*name];
                env(n).ok_or_else(|| IrxError::Unbound(n.to_string()))?
            }
            Expr::BVLiteral(v) => {
                let r = v.get(ctx);
                chk(baa::BitVecOps::width(&r))?;
                Val::B(bv_from_baa(&r))
            }
            Expr::BVZeroExt { e, by, width } => {
                chk(*width)?;
                Val::B(zext(g(e).bv(), *by))
            }
            Expr::BVSignExt { e, by, width } => {
                chk(*width)?;
                Val::B(sext(g(e).bv(), *by))
            }
            Expr::BVSlice { e, hi, lo } => Val::B(extract(g(e).bv(), *hi, *lo)),
            Expr::BVNot(e, _) => Val::B(bv_not(g(e).bv())),
            Expr::BVNegate(e, _) => Val::B(bv_neg(g(e).bv())),
            Expr::BVEqual(a, c) => b(g(a) == g(c)),
            Expr::BVImplies(a, c) => b(!g(a).bv().is_true() || g(c).bv().is_true()),
            Expr::BVGreater(a, c) => b(cmp_op(CmpOp::Ugt, g(a).bv(), g(c).bv())),
            Expr::BVGreaterSigned(a, c, _) => b(cmp_op(CmpOp::Sgt, g(a).bv(), g(c).bv())),
            Expr::BVGreaterEqual(a, c) => b(cmp_op(CmpOp::Uge, g(a).bv(), g(c).bv())),
            Expr::BVGreaterEqualSigned(a, c, _) => b(cmp_op(CmpOp::Sge, g(a).bv(), g(c).bv())),
            Expr::BVConcat(a, c, w) => {
                chk(*w)?;
                Val::B(concat(g(a).bv(), g(c).bv()))
            }
            Expr::BVAnd(a, c, _) => Val::B(bin_op(BinOp::And, g(a).bv(), g(c).bv())),
            Expr::BVOr(a, c, _) => Val::B(bin_op(BinOp::Or, g(a).bv(), g(c).bv())),
            Expr::BVXor(a, c, _) => Val::B(bin_op(BinOp::Xor, g(a).bv(), g(c).bv())),
            Expr::BVShiftLeft(a, c, _) => Val::B(bin_op(BinOp::Shl, g(a).bv(), g(c).bv())),
            Expr::BVArithmeticShiftRight(a, c, _) => Val::B(bin_op(BinOp::Ashr, g(a).bv(), g(c).bv())),
            Expr::BVShiftRight(a, c, _) => Val::B(bin_op(BinOp::Lshr, g(a).bv(), g(c).bv())),
            Expr::BVAdd(a, c, _) => Val::B(bin_op(BinOp::Add, g(a).bv(), g(c).bv())),
            Expr::BVMul(a, c, _) => Val::B(bin_op(BinOp::Mul, g(a).bv(), g(c).bv())),
            Expr::BVSignedDiv(a, c, _) => Val::B(bin_op(BinOp::Sdiv, g(a).bv(), g(c).bv())),
            Expr::BVUnsignedDiv(a, c, _) => Val::B(bin_op(BinOp::Udiv, g(a).bv(), g(c).bv())),
            Expr::BVSignedMod(a, c, _) => Val::B(bin_op(BinOp::Smod, g(a).bv(), g(c).bv())),
            Expr::BVSignedRem(a, c, _) => Val::B(bin_op(BinOp::Srem, g(a).bv(), g(c).bv())),
            Expr::BVUnsignedRem(a, c, _) => Val::B(bin_op(BinOp::Urem, g(a).bv(), g(c).bv())),
            Expr::BVSub(a, c, _) => Val::B(bin_op(BinOp::Sub, g(a).bv(), g(c).bv())),
            Expr::BVArrayRead { array, index, .. } => Val::B(g(array).arr().select(g(index).bv().v)),
            Expr::BVIte { cond, tru, fals } => {
                if g(cond).bv().is_true() {
                    g(tru).clone()
                } else {
                    g(fals).clone()
                }
            }
            Expr::ArrayConstant {
                e,
                index_width,
                data_width,
            } => Val::A(Arr::constant(*index_width, *data_width, g(e).bv().v)),
            Expr::ArrayEqual(a, c) => b(g(a) == g(c)),
            Expr::ArrayStore { array, index, data } => {
                Val::A(g(array).arr().store(g(index).bv().v, g(data).bv().v))
            }
            Expr::ArrayIte { cond, tru, fals } => {
                if g(cond).bv().is_true() {
                    g(tru).clone()
                } else {
                    g(fals).clone()
                }
            }
        };
        memo.insert(e, v);
    }
    Ok(memo[&root].clone())
}
