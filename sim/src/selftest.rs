//! Validation of the simulator itself: reference solver vs its evaluator, vs brute force and vs
//! the z3 binary (if installed); determinism of runs. Never part of a property verdict.

use crate::harness::Stdio;
use crate::refsolver::sexp::parse_one;
use crate::refsolver::term::{ESort, Sort};
use crate::refsolver::*;
use crate::rng::{Rng, mask};
use crate::val::*;
use rustc_hash::FxHashMap;
use std::io::Write;

fn lit(w: u32, v: u128) -> String {
    format!("#b{}", Bv::new(w, v).to_bin())
}

fn solver(seed: u64) -> RefSolver {
    let mut s = RefSolver::new(
        PROFILES[0].clone(),
        Policy::random(&mut Rng::new(seed)),
        seed,
    );
    let r = s.exec(&parse_one("(set-option :produce-unsat-assumptions true)").unwrap());
    assert!(r.error.is_none());
    s
}

fn exec(s: &mut RefSolver, cmd: &str) -> Reply {
    let sx = parse_one(cmd).unwrap_or_else(|e| panic!("cannot parse {cmd}: {e:?}"));
    s.exec(&sx)
}

const BIN_OPS: &[(&str, Option<BinOp>)] = &[
    ("bvand", Some(BinOp::And)),
    ("bvor", Some(BinOp::Or)),
    ("bvxor", Some(BinOp::Xor)),
    ("bvadd", Some(BinOp::Add)),
    ("bvsub", Some(BinOp::Sub)),
    ("bvmul", Some(BinOp::Mul)),
    ("bvudiv", Some(BinOp::Udiv)),
    ("bvurem", Some(BinOp::Urem)),
    ("bvsdiv", Some(BinOp::Sdiv)),
    ("bvsrem", Some(BinOp::Srem)),
    ("bvsmod", Some(BinOp::Smod)),
    ("bvshl", Some(BinOp::Shl)),
    ("bvlshr", Some(BinOp::Lshr)),
    ("bvashr", Some(BinOp::Ashr)),
];
const CMP_OPS: &[(&str, CmpOp)] = &[
    ("bvult", CmpOp::Ult),
    ("bvule", CmpOp::Ule),
    ("bvugt", CmpOp::Ugt),
    ("bvuge", CmpOp::Uge),
    ("bvslt", CmpOp::Slt),
    ("bvsle", CmpOp::Sle),
    ("bvsgt", CmpOp::Sgt),
    ("bvsge", CmpOp::Sge),
];

/// bit-blasted circuits agree with the evaluator: for fixed operand values the circuit forces
/// exactly the evaluator's result
pub fn blaster_vs_evaluator(out: &Stdio) -> Result<u64, String> {
    let mut checked = 0u64;
    let mut rng = Rng::new(42);
    for w in 1..=8u32 {
        let mut s = solver(w as u64);
        exec(&mut s, &format!("(declare-const a (_ BitVec {w}))"));
        exec(&mut s, &format!("(declare-const b (_ BitVec {w}))"));
        let pairs: Vec<(u128, u128)> = if w <= 4 {
            let n = 1u128 << w;
            (0..n).flat_map(|a| (0..n).map(move |b| (a, b))).collect()
        } else {
            (0..120).map(|_| (rng.bits_shaped(w), rng.bits_shaped(w))).collect()
        };
        for (a, b) in pairs {
            let (ba, bb) = (Bv::new(w, a), Bv::new(w, b));
            let mut obligations: Vec<(String, String)> = vec![];
            for (name, op) in BIN_OPS {
                let r = bin_op(op.unwrap(), ba, bb);
                obligations.push((format!("({name} a b)"), lit(w, r.v)));
            }
            for (name, op) in CMP_OPS {
                let r = cmp_op(*op, ba, bb);
                obligations.push((format!("({name} a b)"), r.to_string()));
            }
            obligations.push(("(bvnot a)".into(), lit(w, bv_not(ba).v)));
            obligations.push(("(bvneg a)".into(), lit(w, bv_neg(ba).v)));
            obligations.push(("(concat a b)".into(), lit(2 * w, concat(ba, bb).v)));
            obligations.push((format!("((_ zero_extend 2) a)"), lit(w + 2, zext(ba, 2).v)));
            obligations.push((format!("((_ sign_extend 2) a)"), lit(w + 2, sext(ba, 2).v)));
            let hi = (a % w as u128) as u32;
            let lo = (b % (hi as u128 + 1)) as u32;
            obligations.push((
                format!("((_ extract {hi} {lo}) a)"),
                lit(hi - lo + 1, extract(ba, hi, lo).v),
            ));
            obligations.push(("(= a b)".into(), (a == b).to_string()));
            obligations.push((
                "(ite (bvult a b) a b)".into(),
                lit(w, if a < b { a } else { b }),
            ));
            exec(&mut s, "(push 1)");
            exec(&mut s, &format!("(assert (= a {}))", lit(w, a)));
            exec(&mut s, &format!("(assert (= b {}))", lit(w, b)));
            // all results together must be satisfiable ...
            let all: Vec<String> = obligations.iter().map(|(t, r)| format!("(= {t} {r})")).collect();
            let r = exec(&mut s, &format!("(check-sat-assuming ((and {})))", all.join(" ")));
            if r.text.trim() != "sat" {
                return Err(format!("w={w} a={a} b={b}: conjunction of expected results is {}", r.text.trim()));
            }
            // ... and each negated result unsatisfiable
            for (t, r) in &obligations {
                let q = exec(&mut s, &format!("(check-sat-assuming ((not (= {t} {r}))))"));
                if q.text.trim() != "unsat" {
                    return Err(format!("w={w} a={a} b={b}: circuit for {t} admits a value other than {r}"));
                }
                checked += 1;
            }
            exec(&mut s, "(pop 1)");
            if let Some(f) = &s.stub_failure {
                return Err(format!("stub failure: {f}"));
            }
        }
    }
    out.say(&format!("selftest blaster-vs-evaluator: {checked} obligations ok"));
    Ok(checked)
}

/// typed random SMT-LIB terms over declared symbols
pub struct TermGen<'a> {
    pub rng: &'a mut Rng,
    pub bools: Vec<String>,
    pub bvs: Vec<(String, u32)>,
    pub arrs: Vec<(String, ESort, ESort)>,
}

impl<'a> TermGen<'a> {
    fn esort_term(&mut self, s: ESort, depth: u32) -> String {
        match s {
            ESort::Bool => self.bool_term(depth),
            ESort::Bv(w) => self.bv_term(w, depth),
        }
    }

    pub fn bool_term(&mut self, depth: u32) -> String {
        if depth == 0 || self.rng.chance(1, 6) {
            if !self.bools.is_empty() && self.rng.chance(3, 4) {
                return self.rng.pick(&self.bools).clone();
            }
            return (if self.rng.bool() { "true" } else { "false" }).to_string();
        }
        let d = depth - 1;
        match self.rng.below(12) {
            0 => format!("(not {})", self.bool_term(d)),
            1 => format!("(and {} {})", self.bool_term(d), self.bool_term(d)),
            2 => format!("(or {} {} {})", self.bool_term(d), self.bool_term(d), self.bool_term(d)),
            3 => format!("(xor {} {})", self.bool_term(d), self.bool_term(d)),
            4 => format!("(=> {} {})", self.bool_term(d), self.bool_term(d)),
            5 => format!("(= {} {})", self.bool_term(d), self.bool_term(d)),
            6 => format!("(ite {} {} {})", self.bool_term(d), self.bool_term(d), self.bool_term(d)),
            7 | 8 => {
                let w = self.pick_w();
                let op = self.rng.pick(CMP_OPS).0;
                format!("({op} {} {})", self.bv_term(w, d), self.bv_term(w, d))
            }
            9 => {
                let w = self.pick_w();
                format!("(= {} {})", self.bv_term(w, d), self.bv_term(w, d))
            }
            10 => {
                let w = self.pick_w();
                format!("(distinct {} {})", self.bv_term(w, d), self.bv_term(w, d))
            }
            _ => {
                if let Some((_, i, e)) = self.pick_arr() {
                    if e == ESort::Bool {
                        let a = self.arr_term(i, e, d);
                        let idx = self.esort_term(i, d);
                        return format!("(select {a} {idx})");
                    }
                    let a = self.arr_term(i, e, d);
                    let b = self.arr_term(i, e, d);
                    return format!("(= {a} {b})");
                }
                self.bool_term(d)
            }
        }
    }

    fn pick_w(&mut self) -> u32 {
        if !self.bvs.is_empty() && self.rng.chance(3, 4) {
            self.rng.pick(&self.bvs).1
        } else {
            self.rng.range(1, 5) as u32
        }
    }

    fn pick_arr(&mut self) -> Option<(String, ESort, ESort)> {
        if self.arrs.is_empty() {
            None
        } else {
            Some(self.rng.pick(&self.arrs).clone())
        }
    }

    pub fn arr_term(&mut self, i: ESort, e: ESort, depth: u32) -> String {
        let cands: Vec<String> = self
            .arrs
            .iter()
            .filter(|(_, ii, ee)| *ii == i && *ee == e)
            .map(|(n, _, _)| n.clone())
            .collect();
        if depth == 0 || self.rng.chance(1, 3) {
            if !cands.is_empty() && self.rng.chance(3, 4) {
                return self.rng.pick(&cands).clone();
            }
            let v = self.esort_term(e, 0);
            return format!("((as const {}) {v})", Sort::Arr(i, e).show());
        }
        let d = depth - 1;
        match self.rng.below(3) {
            0 => format!(
                "(store {} {} {})",
                self.arr_term(i, e, d),
                self.esort_term(i, d),
                self.esort_term(e, d)
            ),
            1 => format!(
                "(ite {} {} {})",
                self.bool_term(d),
                self.arr_term(i, e, d),
                self.arr_term(i, e, d)
            ),
            _ => {
                let v = self.esort_term(e, d);
                format!("((as const {}) {v})", Sort::Arr(i, e).show())
            }
        }
    }

    pub fn bv_term(&mut self, w: u32, depth: u32) -> String {
        if depth == 0 || self.rng.chance(1, 6) {
            let cands: Vec<String> = self
                .bvs
                .iter()
                .filter(|(_, ww)| *ww == w)
                .map(|(n, _)| n.clone())
                .collect();
            if !cands.is_empty() && self.rng.chance(3, 4) {
                return self.rng.pick(&cands).clone();
            }
            let v = self.rng.bits_shaped(w);
            return if w % 4 == 0 && self.rng.bool() {
                format!("#x{:0width$x}", v, width = (w / 4) as usize)
            } else {
                lit(w, v)
            };
        }
        let d = depth - 1;
        match self.rng.below(12) {
            0..=4 => {
                let op = self.rng.pick(BIN_OPS).0;
                format!("({op} {} {})", self.bv_term(w, d), self.bv_term(w, d))
            }
            5 => format!("(bvnot {})", self.bv_term(w, d)),
            6 => format!("(bvneg {})", self.bv_term(w, d)),
            7 => format!(
                "(ite {} {} {})",
                self.bool_term(d),
                self.bv_term(w, d),
                self.bv_term(w, d)
            ),
            8 => {
                if w >= 2 {
                    let l = self.rng.range(1, w as u64 - 1) as u32;
                    format!("(concat {} {})", self.bv_term(w - l, d), self.bv_term(l, d))
                } else {
                    self.bv_term(w, d)
                }
            }
            9 => {
                let extra = self.rng.range(0, 3) as u32;
                let lo = self.rng.range(0, extra as u64) as u32;
                format!(
                    "((_ extract {} {}) {})",
                    lo + w - 1,
                    lo,
                    self.bv_term(w + extra, d)
                )
            }
            10 => {
                if w >= 2 {
                    let k = self.rng.range(1, w as u64 - 1) as u32;
                    let f = if self.rng.bool() { "zero_extend" } else { "sign_extend" };
                    format!("((_ {f} {k}) {})", self.bv_term(w - k, d))
                } else {
                    self.bv_term(w, d)
                }
            }
            _ => {
                let cands: Vec<(String, ESort, ESort)> = self
                    .arrs
                    .iter()
                    .filter(|(_, _, e)| *e == ESort::Bv(w))
                    .cloned()
                    .collect();
                if cands.is_empty() {
                    return self.bv_term(w, d);
                }
                let (_, i, e) = self.rng.pick(&cands).clone();
                let a = self.arr_term(i, e, d);
                let idx = self.esort_term(i, d);
                format!("(select {a} {idx})")
            }
        }
    }
}

struct Script {
    decls: Vec<(String, Sort)>,
    asserts: Vec<String>,
    assumptions: Vec<String>,
    queries: Vec<String>,
}

fn random_script(rng: &mut Rng, max_bits: u32) -> Script {
    let mut decls: Vec<(String, Sort)> = vec![];
    let mut bits = 0;
    let n = rng.range(1, 5);
    for k in 0..n {
        let sort = match rng.below(6) {
            0 | 1 => Sort::Bool,
            2 | 3 | 4 => Sort::Bv(rng.range(1, 4) as u32),
            _ => {
                let i = if rng.bool() { ESort::Bool } else { ESort::Bv(rng.range(1, 2) as u32) };
                let e = if rng.chance(1, 3) { ESort::Bool } else { ESort::Bv(rng.range(1, 3) as u32) };
                Sort::Arr(i, e)
            }
        };
        let b = match sort {
            Sort::Bool => 1,
            Sort::Bv(w) => w,
            Sort::Arr(i, e) => (1 << i.width()) * e.width(),
        };
        if bits + b > max_bits {
            continue;
        }
        bits += b;
        decls.push((format!("v{k}"), sort));
    }
    let bools = decls.iter().filter(|d| d.1 == Sort::Bool).map(|d| d.0.clone()).collect();
    let bvs = decls
        .iter()
        .filter_map(|d| if let Sort::Bv(w) = d.1 { Some((d.0.clone(), w)) } else { None })
        .collect();
    let arrs = decls
        .iter()
        .filter_map(|d| if let Sort::Arr(i, e) = d.1 { Some((d.0.clone(), i, e)) } else { None })
        .collect();
    let mut g = TermGen { rng, bools, bvs, arrs };
    let asserts = (0..g.rng.range(0, 3)).map(|_| g.bool_term(3)).collect();
    let assumptions = (0..g.rng.range(0, 4)).map(|_| g.bool_term(2)).collect();
    let mut queries = vec![];
    for _ in 0..3 {
        let w = g.rng.range(1, 5) as u32;
        queries.push(g.bv_term(w, 3));
        queries.push(g.bool_term(3));
    }
    Script { decls, asserts, assumptions, queries }
}

fn all_assignments(decls: &[(String, Sort)]) -> Vec<FxHashMap<String, Val>> {
    let mut out: Vec<FxHashMap<String, Val>> = vec![FxHashMap::default()];
    for (name, sort) in decls {
        let vals: Vec<Val> = match sort {
            Sort::Bool => vec![Val::B(Bv::new(1, 0)), Val::B(Bv::new(1, 1))],
            Sort::Bv(w) => (0..(1u128 << w)).map(|v| Val::B(Bv::new(*w, v))).collect(),
            Sort::Arr(i, e) => {
                let n = 1usize << i.width();
                let ew = e.width();
                let total = n as u32 * ew;
                (0..(1u128 << total))
                    .map(|bits| {
                        let elems: Vec<u128> = (0..n).map(|k| (bits >> (k as u32 * ew)) & mask(ew)).collect();
                        Val::A(Arr::from_elements(i.width(), ew, &elems))
                    })
                    .collect()
            }
        };
        let mut next = Vec::with_capacity(out.len() * vals.len());
        for a in &out {
            for v in &vals {
                let mut a2 = a.clone();
                a2.insert(name.clone(), v.clone());
                next.push(a2);
            }
        }
        out = next;
    }
    out
}

/// CDCL + blaster answers agree with brute-force enumeration using the evaluator
pub fn solver_vs_brute_force(out: &Stdio, n_scripts: usize) -> Result<u64, String> {
    let mut rng = Rng::new(4242);
    let mut checked = 0u64;
    let (mut n_sat, mut n_unsat) = (0, 0);
    for si in 0..n_scripts {
        let sc = random_script(&mut rng, 10);
        let mut s = solver(si as u64);
        for (n, sort) in &sc.decls {
            let r = exec(&mut s, &format!("(declare-const {n} {})", sort.show()));
            if let Some(e) = r.error {
                return Err(format!("declare failed: {e}"));
            }
        }
        for a in &sc.asserts {
            let r = exec(&mut s, &format!("(assert {a})"));
            if let Some(e) = r.error {
                return Err(format!("assert {a} failed: {e}"));
            }
        }
        let r = exec(&mut s, &format!("(check-sat-assuming ({}))", sc.assumptions.join(" ")));
        if let Some(e) = r.error {
            return Err(format!("check failed: {e}"));
        }
        // brute force
        let assigns = all_assignments(&sc.decls);
        let eval_all = |_s: &RefSolver, terms: &[String], a: &FxHashMap<String, Val>| -> bool {
            thread_local! {
                static CACHE: std::cell::RefCell<Option<(Vec<String>, RefSolver)>> = const { std::cell::RefCell::new(None) };
            }
            CACHE.with(|c| {
                let mut c = c.borrow_mut();
                let fresh = match c.as_ref() {
                    Some((t, _)) => t != terms,
                    None => true,
                };
                if fresh {
                    let mut tmp = RefSolver::new(PROFILES[0].clone(), Policy::canonical(), 0);
                    for (n, sort) in &sc.decls {
                        exec(&mut tmp, &format!("(declare-const {n} {})", sort.show()));
                    }
                    for (k, t) in terms.iter().enumerate() {
                        exec(&mut tmp, &format!("(define-fun q{k} () Bool {t})"));
                    }
                    *c = Some((terms.to_vec(), tmp));
                }
                let tmp = &c.as_ref().unwrap().1;
                let mut memo = FxHashMap::default();
                for k in 0..terms.len() {
                    let v = tmp
                        .eval_symbol_under(&format!("q{k}"), &|n, _| a[n].clone(), &mut memo)
                        .unwrap();
                    if !v.bv().is_true() {
                        return false;
                    }
                }
                true
            })
        };
        let mut all_terms = sc.asserts.clone();
        all_terms.extend(sc.assumptions.iter().cloned());
        let exists = assigns.iter().any(|a| eval_all(&s, &all_terms, a));
        let got = r.text.trim().to_string();
        if exists != (got == "sat") {
            return Err(format!(
                "script {si}: solver says {got}, brute force says {}; asserts={:?} assumptions={:?} decls={:?}",
                if exists { "sat" } else { "unsat" },
                sc.asserts,
                sc.assumptions,
                sc.decls
            ));
        }
        if got == "sat" {
            n_sat += 1;
            // get-value agrees with evaluating under the reported model: covered by self-validation;
            // additionally every query term evaluates without failure
            for q in &sc.queries {
                let r = exec(&mut s, &format!("(get-value ({q}))"));
                if let Some(e) = r.error {
                    return Err(format!("get-value {q} failed: {e}"));
                }
            }
        } else {
            n_unsat += 1;
            let r = exec(&mut s, "(get-unsat-assumptions)");
            if let Some(e) = r.error {
                return Err(format!("get-unsat-assumptions failed: {e}"));
            }
            // the core alone (with the assertions) must be unsat by brute force
            let core_sx = parse_one(r.text.trim()).map_err(|e| format!("core parse: {e:?}"))?;
            let core_terms: Vec<String> = core_sx.list().unwrap().iter().map(|t| t.show()).collect();
            let mut terms = sc.asserts.clone();
            terms.extend(core_terms);
            if assigns.iter().any(|a| eval_all(&s, &terms, a)) {
                return Err(format!("script {si}: reported unsat core is satisfiable: {}", r.text));
            }
        }
        if let Some(f) = &s.stub_failure {
            return Err(format!("stub failure: {f}"));
        }
        checked += 1;
    }
    out.say(&format!(
        "selftest solver-vs-brute-force: {checked} scripts ok ({n_sat} sat, {n_unsat} unsat)"
    ));
    Ok(checked)
}

fn norm_value(v: &str) -> String {
    // normalise `#x..` to `#b..`
    let mut out = String::new();
    let mut rest = v;
    while let Some(p) = rest.find("#x") {
        out.push_str(&rest[..p]);
        let digits: String = rest[p + 2..].chars().take_while(|c| c.is_ascii_hexdigit()).collect();
        out.push_str("#b");
        for d in digits.chars() {
            out.push_str(&format!("{:04b}", d.to_digit(16).unwrap()));
        }
        rest = &rest[p + 2 + digits.len()..];
    }
    out.push_str(rest);
    out.split_whitespace().collect::<Vec<_>>().join(" ")
}

/// the same random scripts through the z3 binary, if there is one: verdicts and values of closed
/// terms (all symbols pinned by equalities) must agree
pub fn vs_z3(out: &Stdio, n_scripts: usize) -> Result<u64, String> {
    let z3 = ["/usr/bin/z3", "/usr/local/bin/z3"]
        .iter()
        .find(|p| std::path::Path::new(p).exists());
    let Some(z3) = z3 else {
        out.say("selftest vs-z3: skipped (no z3 binary)");
        return Ok(0);
    };
    let mut rng = Rng::new(777);
    let mut checked = 0u64;
    let mut text = String::new();
    let mut expected: Vec<String> = vec![];
    for si in 0..n_scripts {
        let sc = random_script(&mut rng, 12);
        let mut s = RefSolver::new(PROFILES[2].clone(), Policy::canonical(), si as u64);
        text.push_str("(push 1)\n");
        for (n, sort) in &sc.decls {
            let c = format!("(declare-const {n} {})", sort.show());
            exec(&mut s, &c);
            text.push_str(&c);
            text.push('\n');
        }
        for a in &sc.asserts {
            let c = format!("(assert {a})");
            exec(&mut s, &c);
            text.push_str(&c);
            text.push('\n');
        }
        let c = format!("(check-sat-assuming ({}))", sc.assumptions.join(" "));
        let r = exec(&mut s, &c);
        text.push_str(&c);
        text.push('\n');
        expected.push(r.text.trim().to_string());
        // pin all symbols to the model and compare values of the query terms
        if r.text.trim() == "sat" {
            let mut pins = vec![];
            for (n, sort) in &sc.decls {
                let q = exec(&mut s, &format!("(get-value ({n}))"));
                let sx = parse_one(q.text.trim()).unwrap();
                let val = sx.list().unwrap()[0].list().unwrap()[1].show();
                let _ = sort;
                pins.push(format!("(assert (= {n} {val}))"));
            }
            for p in &pins {
                exec(&mut s, p);
                text.push_str(p);
                text.push('\n');
            }
            exec(&mut s, "(check-sat)");
            text.push_str("(check-sat)\n");
            expected.push("sat".into());
            for q in &sc.queries {
                let r = exec(&mut s, &format!("(get-value ({q}))"));
                let sx = parse_one(r.text.trim()).unwrap();
                let val = sx.list().unwrap()[0].list().unwrap()[1].show();
                text.push_str(&format!("(get-value ({q}))\n"));
                expected.push(format!("VALUE {}", norm_value(&val)));
            }
        }
        text.push_str("(pop 1)\n");
        if let Some(f) = &s.stub_failure {
            return Err(format!("stub failure: {f}"));
        }
        checked += 1;
    }
    let mut child = std::process::Command::new(z3)
        .args(["-in", "pp.min_alias_size=4294967295", "pp.max_depth=4294967295"])
        .stdin(std::process::Stdio::piped())
        .stdout(std::process::Stdio::piped())
        .stderr(std::process::Stdio::null())
        .spawn()
        .map_err(|e| e.to_string())?;
    let mut stdin = child.stdin.take().unwrap();
    let t2 = text.clone();
    let writer = std::thread::spawn(move || {
        let _ = stdin.write_all(b"(set-logic ALL)\n");
        let _ = stdin.write_all(t2.as_bytes());
    });
    let outp = child.wait_with_output().map_err(|e| e.to_string())?;
    let _ = writer.join();
    let z3_out = String::from_utf8_lossy(&outp.stdout).to_string();
    // split z3 output into replies (balanced parens)
    let mut replies: Vec<String> = vec![];
    let mut cur = String::new();
    let mut depth = 0i64;
    for line in z3_out.lines() {
        cur.push_str(line);
        cur.push(' ');
        depth += line.chars().filter(|c| *c == '(').count() as i64;
        depth -= line.chars().filter(|c| *c == ')').count() as i64;
        if depth <= 0 {
            replies.push(cur.trim().to_string());
            cur.clear();
            depth = 0;
        }
    }
    if replies.len() != expected.len() {
        return Err(format!(
            "z3 produced {} replies, expected {} (first lines: {:?})",
            replies.len(),
            expected.len(),
            replies.iter().take(5).collect::<Vec<_>>()
        ));
    }
    for (i, (r, e)) in replies.iter().zip(expected.iter()).enumerate() {
        if let Some(ev) = e.strip_prefix("VALUE ") {
            let sx = parse_one(r).map_err(|x| format!("z3 reply {r}: {x:?}"))?;
            let val = sx.list().unwrap()[0].list().unwrap()[1].show();
            if norm_value(&val) != ev {
                return Err(format!("reply {i}: z3 value {} differs from reference {}", norm_value(&val), ev));
            }
        } else if r != e {
            return Err(format!("reply {i}: z3 says {r}, reference solver says {e}"));
        }
    }
    out.say(&format!(
        "selftest vs-z3: {checked} scripts, {} replies agree",
        replies.len()
    ));
    Ok(checked)
}

pub fn run_all(out: &Stdio) -> i32 {
    let mut ok = true;
    for r in [
        blaster_vs_evaluator(out),
        solver_vs_brute_force(out, 1500),
        vs_z3(out, 400),
    ] {
        if let Err(e) = r {
            out.say(&format!("SELFTEST-FAILURE: {e}"));
            ok = false;
        }
    }
    if ok { 0 } else { 2 }
}
