//! Deterministic PRNG: SplitMix64 seeding + xoshiro256**, with named stream derivation.
//! No dependency on any external crate so that streams are stable across toolchains.

#[derive(Clone, Debug)]
pub struct Rng {
    s: [u64; 4],
}

#[inline]
pub fn splitmix64(x: &mut u64) -> u64 {
    *x = x.wrapping_add(0x9E37_79B9_7F4A_7C15);
    let mut z = *x;
    z = (z ^ (z >> 30)).wrapping_mul(0xBF58_476D_1CE4_E5B9);
    z = (z ^ (z >> 27)).wrapping_mul(0x94D0_49BB_1331_11EB);
    z ^ (z >> 31)
}

pub fn fnv1a(data: &[u8]) -> u64 {
    let mut h: u64 = 0xcbf2_9ce4_8422_2325;
    for b in data {
        h ^= *b as u64;
        h = h.wrapping_mul(0x0000_0100_0000_01B3);
    }
    h
}

/// mixes several integers into one seed
pub fn mix(parts: &[u64]) -> u64 {
    let mut x = 0x1234_5678_9ABC_DEF0u64;
    let mut out = 0u64;
    for p in parts {
        x ^= *p;
        out = out.rotate_left(17) ^ splitmix64(&mut x);
    }
    splitmix64(&mut out.clone()) ^ out
}

impl Rng {
    pub fn new(seed: u64) -> Self {
        let mut x = seed;
        let s = [
            splitmix64(&mut x),
            splitmix64(&mut x),
            splitmix64(&mut x),
            splitmix64(&mut x),
        ];
        Rng { s }
    }

    /// an independent stream derived from a seed and a name
    pub fn stream(seed: u64, name: &str) -> Self {
        Rng::new(mix(&[seed, fnv1a(name.as_bytes())]))
    }

    #[inline]
    pub fn next_u64(&mut self) -> u64 {
        let result = self.s[1].wrapping_mul(5).rotate_left(7).wrapping_mul(9);
        let t = self.s[1] << 17;
        self.s[2] ^= self.s[0];
        self.s[3] ^= self.s[1];
        self.s[1] ^= self.s[2];
        self.s[0] ^= self.s[3];
        self.s[2] ^= t;
        self.s[3] = self.s[3].rotate_left(45);
        result
    }

    pub fn next_u128(&mut self) -> u128 {
        ((self.next_u64() as u128) << 64) | self.next_u64() as u128
    }

    /// uniform in 0..n (n > 0)
    #[inline]
    pub fn below(&mut self, n: u64) -> u64 {
        debug_assert!(n > 0);
        // multiply-shift, bias is negligible for our n
        ((self.next_u64() as u128 * n as u128) >> 64) as u64
    }

    #[inline]
    pub fn usize_below(&mut self, n: usize) -> usize {
        self.below(n as u64) as usize
    }

    /// inclusive range
    pub fn range(&mut self, lo: u64, hi: u64) -> u64 {
        lo + self.below(hi - lo + 1)
    }

    #[inline]
    pub fn chance(&mut self, num: u64, den: u64) -> bool {
        self.below(den) < num
    }

    pub fn bool(&mut self) -> bool {
        self.next_u64() & 1 == 1
    }

    pub fn pick<'a, T>(&mut self, xs: &'a [T]) -> &'a T {
        &xs[self.usize_below(xs.len())]
    }

    pub fn shuffle<T>(&mut self, xs: &mut [T]) {
        for i in (1..xs.len()).rev() {
            let j = self.usize_below(i + 1);
            xs.swap(i, j);
        }
    }

    /// weighted choice: returns index
    pub fn weighted(&mut self, weights: &[u32]) -> usize {
        let total: u64 = weights.iter().map(|w| *w as u64).sum();
        let mut r = self.below(total.max(1));
        for (i, w) in weights.iter().enumerate() {
            if r < *w as u64 {
                return i;
            }
            r -= *w as u64;
        }
        weights.len() - 1
    }

    /// a value of `w` bits with an "interesting" shape
    pub fn bits_shaped(&mut self, w: u32) -> u128 {
        let mask = mask(w);
        let v = match self.below(10) {
            0 => 0,
            1 => 1,
            2 => mask,
            3 => 1u128 << self.below(w as u64),
            4 => mask >> self.below(w as u64),
            5 => mask << self.below(w as u64),
            6 => mask >> 1,        // max signed
            7 => 1u128 << (w - 1), // min signed
            _ => self.next_u128(),
        };
        v & mask
    }
}

#[inline]
pub fn mask(w: u32) -> u128 {
    if w >= 128 { u128::MAX } else { (1u128 << w) - 1 }
}
