//! The simulated process table and pipes behind patronus' `SmtLibSolverCtx` (hook H1).
//! One `World` per run; every spawned solver process is a `RefSolver` plus byte queues.
//! All choices come from the run's `transport` PRNG stream and the fault plan.

use crate::faults::*;
use crate::refsolver::sexp::Sexp;
use crate::refsolver::*;
use crate::rng::{Rng, fnv1a};
use patronus::smt::verif_seam::SimProc;
use std::cell::RefCell;
use std::collections::VecDeque;
use std::io;
use std::rc::Rc;

/// typed panic payload used by the simulator to stop a run that would block or spin forever
#[derive(Debug, Clone, PartialEq, Eq)]
pub enum SimAbort {
    Deadlock(String),
    Livelock(String),
}

#[derive(Clone, Debug)]
pub struct TransportCfg {
    /// benign perturbations: short read/write, EINTR, exit-visibility lag
    pub benign: bool,
    /// max bytes per read when perturbing (small values stress line framing)
    pub max_read_chunk: usize,
    /// per-run budget of transport events (step bound for liveness)
    pub event_budget: u64,
    /// keep the text of the event log (for replay files)
    pub record_text: bool,
}

/// per-run budget of transport events: the step bound behind "never blocks / loops forever".
/// The longest fault-free conversation of the quick workloads has ~260,000 events (evidence:
/// maxima.transport.events_in_one_run); the bound is several times that.
pub static EVENT_BUDGET: std::sync::atomic::AtomicU64 = std::sync::atomic::AtomicU64::new(1_200_000);

impl Default for TransportCfg {
    fn default() -> Self {
        TransportCfg {
            benign: true,
            max_read_chunk: 64,
            event_budget: EVENT_BUDGET.load(std::sync::atomic::Ordering::Relaxed),
            record_text: false,
        }
    }
}

#[derive(Default, Clone, Debug)]
pub struct TransportStats {
    pub events: u64,
    pub spawns: u64,
    pub short_writes: u64,
    pub short_reads: u64,
    pub eintr_write: u64,
    pub eintr_flush: u64,
    pub eintr_read: u64,
    pub epipe: u64,
    pub eof_reads: u64,
    pub exit_lag: u64,
    pub stdin_bytes: u64,
    pub stdout_bytes: u64,
    pub commands: u64,
    pub response_points: u64,
}

#[derive(Clone, Debug)]
pub struct WireEntry {
    pub proc: usize,
    /// index among all commands of the run
    pub cmd_index: usize,
    /// index among response-bearing commands of the run (if response-bearing)
    pub resp_index: Option<usize>,
    pub kind: CmdKind,
    pub cmd: String,
    /// what the solver answered (after faults)
    pub reply: String,
    /// what a correct solver would have answered
    pub correct_reply: String,
    /// the reference solver rejected the command: message
    pub solver_error: Option<String>,
    pub fault: Option<String>,
}

pub struct ProcState {
    pub solver: RefSolver,
    framer: CommandFramer,
    stdout_q: VecDeque<u8>,
    stderr_q: VecDeque<u8>,
    pub alive: bool,
    pub exit_status: Option<i32>,
    /// number of `try_wait` calls that still report "running" after the exit
    exit_lag: u32,
    stdin_closed: bool,
    eof_reads: u32,
    pub program: String,
    pub args: Vec<String>,
    /// ordinal of the spawn that created this process (failed spawns count)
    pub spawn_idx: usize,
    /// response-bearing commands this process has read so far
    pub n_resp_local: usize,
}

pub struct World {
    pub seed: u64,
    pub cfg: TransportCfg,
    pub rng: Rng,
    pub policy: Policy,
    pub procs: Vec<ProcState>,
    pub plan: FaultPlan,
    pub fired: Vec<FiredFault>,
    pub wire: Vec<WireEntry>,
    pub stats: TransportStats,
    pub log_hash: u64,
    pub log_text: Vec<String>,
    pub seq: u64,
    pub poisoned: bool,
    pub abort: Option<SimAbort>,
    n_commands: usize,
    n_resp: usize,
    n_spawns: usize,
}

pub type WorldRef = Rc<RefCell<World>>;

impl World {
    pub fn new(seed: u64, cfg: TransportCfg, policy: Policy, plan: FaultPlan) -> WorldRef {
        Rc::new(RefCell::new(World {
            seed,
            cfg,
            rng: Rng::stream(seed, "transport"),
            policy,
            procs: vec![],
            plan,
            fired: vec![],
            wire: vec![],
            stats: TransportStats::default(),
            log_hash: 0xcbf2_9ce4_8422_2325,
            log_text: vec![],
            seq: 0,
            poisoned: false,
            abort: None,
            n_commands: 0,
            n_resp: 0,
            n_spawns: 0,
        }))
    }

    /// once the simulator has stopped the run, or any panic is in flight, the transport only
    /// returns plain errors and never raises a sentinel again (patronus code such as
    /// `Drop for SmtLibSolverCtx` runs while unwinding)
    pub fn dead(&self) -> bool {
        self.poisoned || crate::harness::PANICKED.with(|p| p.get())
    }

    pub fn event(&mut self, kind: &str, payload: &str) {
        self.seq += 1;
        self.stats.events += 1;
        let line = format!("{} {} {}", self.seq, kind, payload);
        self.log_hash = self.log_hash.rotate_left(5) ^ fnv1a(line.as_bytes());
        if self.cfg.record_text {
            self.log_text.push(line);
        }
    }

    /// marks the run as aborted and unwinds with the typed sentinel (unless already poisoned)
    fn abort_run(&mut self, a: SimAbort) -> ! {
        self.event("abort", &format!("{a:?}"));
        self.poisoned = true;
        self.abort = Some(a.clone());
        std::panic::panic_any(a)
    }

    fn check_budget(&mut self) {
        if !self.dead() && self.stats.events > self.cfg.event_budget {
            self.abort_run(SimAbort::Livelock(format!(
                "transport event budget of {} exceeded",
                self.cfg.event_budget
            )));
        }
    }

    pub fn response_points(&self) -> usize {
        self.n_resp
    }
    pub fn command_points(&self) -> usize {
        self.n_commands
    }
    pub fn spawns(&self) -> usize {
        self.n_spawns
    }
    /// (spawn ordinal, local response count, alive) of the most recently spawned process
    pub fn current_proc(&self) -> Option<(usize, usize, bool)> {
        self.procs.last().map(|p| (p.spawn_idx, p.n_resp_local, p.alive))
    }

    fn spawn(&mut self, program: &str, args: &[String]) -> io::Result<usize> {
        let spawn_idx = self.n_spawns;
        self.n_spawns += 1;
        self.stats.spawns += 1;
        self.event("spawn", &format!("{program} {args:?}"));
        if let Some(f) = self.plan.at_spawn(spawn_idx) {
            self.fired.push(FiredFault {
                fault: f.clone(),
                effective: true,
            });
            self.event("fault", "spawn-fail");
            return Err(io::Error::new(io::ErrorKind::NotFound, "simulated spawn failure"));
        }
        let profile = match profile_for(program) {
            Some(p) => p.clone(),
            None => {
                return Err(io::Error::new(
                    io::ErrorKind::NotFound,
                    format!("no such program: {program}"),
                ));
            }
        };
        let solver_seed = crate::rng::mix(&[self.seed, 0x50_4C_56, spawn_idx as u64]);
        let solver = RefSolver::new(profile, self.policy.clone(), solver_seed);
        self.procs.push(ProcState {
            solver,
            framer: CommandFramer::default(),
            stdout_q: VecDeque::new(),
            stderr_q: VecDeque::new(),
            alive: true,
            exit_status: None,
            exit_lag: 0,
            stdin_closed: false,
            eof_reads: 0,
            program: program.to_string(),
            args: args.to_vec(),
            spawn_idx,
            n_resp_local: 0,
        });
        Ok(self.procs.len() - 1)
    }

    fn kill(&mut self, p: usize, status: i32, stderr: &str) {
        let lag = if self.cfg.benign { self.rng.below(3) as u32 } else { 0 };
        let pr = &mut self.procs[p];
        if pr.alive {
            pr.alive = false;
            pr.exit_status = Some(status);
            pr.exit_lag = lag;
            pr.stderr_q.extend(stderr.as_bytes());
            self.event("exit", &format!("p{p} status={status}"));
        }
    }

    /// lets process `p` consume all complete commands in its stdin
    fn run_proc(&mut self, p: usize) {
        loop {
            if !self.procs[p].alive {
                return;
            }
            let framed = self.procs[p].framer.next();
            let (sx, raw) = match framed {
                None => return,
                Some(Framed::SyntaxError(e)) => {
                    // a real solver reports a parse error
                    let msg = format!("(error \"parse error: {e}\")\n");
                    self.procs[p].stdout_q.extend(msg.as_bytes());
                    self.procs[p].solver.had_error = true;
                    let cmd_index = self.n_commands;
                    self.n_commands += 1;
                    self.wire.push(WireEntry {
                        proc: p,
                        cmd_index,
                        resp_index: None,
                        kind: CmdKind::Other,
                        cmd: "<syntax error>".into(),
                        reply: msg.clone(),
                        correct_reply: msg,
                        solver_error: Some(format!("parse error: {e}")),
                        fault: None,
                    });
                    if self.procs[p].solver.profile.dies_on_error {
                        self.kill(p, 1, "");
                    }
                    continue;
                }
                Some(Framed::Command(sx, raw)) => (sx, raw),
            };
            self.exec_command(p, &sx, raw);
        }
    }

    fn exec_command(&mut self, p: usize, sx: &Sexp, raw: String) {
        let kind = classify(sx);
        let cmd_index = self.n_commands;
        self.n_commands += 1;
        self.stats.commands += 1;
        let mut local = None;
        let resp_index = if kind.response_bearing() {
            let r = self.n_resp;
            self.n_resp += 1;
            self.stats.response_points += 1;
            local = Some((self.procs[p].spawn_idx, self.procs[p].n_resp_local));
            self.procs[p].n_resp_local += 1;
            Some(r)
        } else {
            None
        };
        self.event("cmd", &raw);

        // fault that kills the process before it reads this command
        let fault = self.plan.at(cmd_index, resp_index, local);
        if let Some(f) = &fault {
            if let FaultKind::Exit { when: ExitWhen::BeforeRead, status, stderr } = &f.kind {
                self.event("fault", &f.describe());
                self.fired.push(FiredFault { fault: f.clone(), effective: resp_index.is_some() });
                self.wire.push(WireEntry {
                    proc: p,
                    cmd_index,
                    resp_index,
                    kind,
                    cmd: raw,
                    reply: String::new(),
                    correct_reply: String::new(),
                    solver_error: None,
                    fault: Some(f.describe()),
                });
                let (status, stderr) = (*status, stderr.clone());
                self.kill(p, status, &stderr);
                return;
            }
        }

        let reply = self.procs[p].solver.exec(sx);
        let correct = reply.text.clone();
        let mut out_text = reply.text.clone();
        let mut exit = reply.exit;
        let mut exit_stderr = String::new();
        let mut fault_desc = None;
        if let Some(f) = fault {
            let mut effective = true;
            match &f.kind {
                FaultKind::ErrReply { msg, dies } => {
                    out_text = format!("(error \"{}\")\n", msg.replace('"', "\"\""));
                    if *dies {
                        exit = Some(1);
                    }
                    self.procs[p].solver.had_error = true;
                }
                FaultKind::Unknown { reason } => {
                    out_text = "unknown\n".to_string();
                    if *reason {
                        out_text.push_str("(:reason-unknown \"timeout\")\n");
                    }
                }
                FaultKind::Empty { eof } => {
                    if *eof {
                        out_text = String::new();
                        exit = Some(0);
                    } else {
                        out_text = "\n".to_string();
                    }
                }
                FaultKind::Truncated { cut_permille, status } => {
                    let trimmed = correct.trim_end();
                    if trimmed.len() >= 2 {
                        // cut strictly inside the significant text
                        let cut = 1 + (*cut_permille as usize * (trimmed.len() - 1)) / 1001;
                        let cut = cut.min(trimmed.len() - 1);
                        // never cut inside a UTF-8 sequence (replies are ASCII, but be safe)
                        let mut c = cut;
                        while !trimmed.is_char_boundary(c) {
                            c -= 1;
                        }
                        out_text = trimmed[..c].to_string();
                    } else {
                        out_text = String::new();
                    }
                    exit = Some(*status);
                }
                FaultKind::Exit { when: _, status, stderr } => {
                    // after reading the command, before answering
                    out_text = String::new();
                    exit = Some(*status);
                    exit_stderr = stderr.clone();
                    effective = resp_index.is_some();
                }
                FaultKind::Garbage { text, exit: e } => {
                    out_text = text.clone();
                    if e.is_some() {
                        exit = *e;
                    }
                }
                FaultKind::ExitAfterReply { status, stderr } => {
                    exit = Some(*status);
                    exit_stderr = stderr.clone();
                    effective = false;
                }
                FaultKind::SpawnFail => {}
            }
            self.event("fault", &f.describe());
            fault_desc = Some(f.describe());
            self.fired.push(FiredFault { fault: f, effective });
        }
        if !out_text.is_empty() {
            self.event("resp", out_text.trim_end());
        }
        self.procs[p].stdout_q.extend(out_text.as_bytes());
        self.wire.push(WireEntry {
            proc: p,
            cmd_index,
            resp_index,
            kind,
            cmd: raw,
            reply: out_text,
            correct_reply: correct,
            solver_error: reply.error,
            fault: fault_desc,
        });
        if let Some(status) = exit {
            self.kill(p, status, &exit_stderr);
        }
    }
}

/// handle given to patronus through the seam
pub struct SimSolverProc {
    world: WorldRef,
    p: usize,
}

pub fn make_spawner(world: WorldRef) -> patronus::smt::verif_seam::Spawner {
    Box::new(move |program: &str, args: &[String]| {
        let p = world.borrow_mut().spawn(program, args)?;
        Ok(Box::new(SimSolverProc {
            world: world.clone(),
            p,
        }) as Box<dyn SimProc>)
    })
}

impl SimProc for SimSolverProc {
    fn stdin_write(&mut self, buf: &[u8]) -> io::Result<usize> {
        let mut w = self.world.borrow_mut();
        let p = self.p;
        if w.dead() {
            return Err(io::Error::new(io::ErrorKind::BrokenPipe, "poisoned"));
        }
        w.check_budget();
        if !w.procs[p].alive {
            w.stats.epipe += 1;
            w.event("epipe", &format!("p{p}"));
            return Err(io::Error::new(io::ErrorKind::BrokenPipe, "broken pipe"));
        }
        if buf.is_empty() {
            return Ok(0);
        }
        let mut n = buf.len();
        if w.cfg.benign {
            match w.rng.below(12) {
                0 => {
                    w.stats.eintr_write += 1;
                    w.event("eintr", "write");
                    return Err(io::Error::new(io::ErrorKind::Interrupted, "EINTR"));
                }
                1 => n = 1,
                2 | 3 => n = 1 + w.rng.usize_below(buf.len()),
                _ => {}
            }
            if n < buf.len() {
                w.stats.short_writes += 1;
            }
        }
        w.stats.stdin_bytes += n as u64;
        w.event("wr", &format!("p{p} {n}/{}", buf.len()));
        w.procs[p].framer.push(&buf[..n]);
        w.run_proc(p);
        Ok(n)
    }

    fn stdin_flush(&mut self) -> io::Result<()> {
        let mut w = self.world.borrow_mut();
        if w.dead() {
            return Ok(());
        }
        // `std::process::ChildStdin::flush` is a no-op that cannot fail: nothing to perturb
        w.event("flush", "");
        Ok(())
    }

    fn stdin_close(&mut self) {
        let mut w = self.world.borrow_mut();
        let p = self.p;
        if w.dead() {
            return;
        }
        if !w.procs[p].stdin_closed {
            w.procs[p].stdin_closed = true;
            w.event("close", &format!("p{p} stdin"));
            // a solver reading EOF on stdin exits
            if w.procs[p].alive {
                let st = if w.procs[p].solver.had_error { 1 } else { 0 };
                w.kill(p, st, "");
            }
        }
    }

    fn stdout_read(&mut self, buf: &mut [u8]) -> io::Result<usize> {
        let mut w = self.world.borrow_mut();
        let p = self.p;
        if w.dead() {
            return Err(io::Error::other("poisoned"));
        }
        w.check_budget();
        if buf.is_empty() {
            return Ok(0);
        }
        if w.procs[p].stdout_q.is_empty() {
            if w.procs[p].alive {
                let pending = w.procs[p].framer.pending_bytes();
                w.abort_run(SimAbort::Deadlock(format!(
                    "client reads the solver's stdout, but the solver (alive) owes no response ({} bytes of an incomplete command pending)",
                    pending
                )));
            }
            w.stats.eof_reads += 1;
            w.procs[p].eof_reads += 1;
            w.event("eof", &format!("p{p}"));
            if w.procs[p].eof_reads > 64 {
                w.abort_run(SimAbort::Livelock(
                    "more than 64 consecutive reads at end-of-file on the solver's stdout".into(),
                ));
            }
            return Ok(0);
        }
        w.procs[p].eof_reads = 0;
        let avail = w.procs[p].stdout_q.len().min(buf.len());
        let mut n = avail;
        if w.cfg.benign {
            match w.rng.below(12) {
                0 => {
                    w.stats.eintr_read += 1;
                    w.event("eintr", "read");
                    return Err(io::Error::new(io::ErrorKind::Interrupted, "EINTR"));
                }
                1 => n = 1,
                2 | 3 | 4 => {
                    let cap = avail.min(w.cfg.max_read_chunk.max(1));
                    n = 1 + w.rng.usize_below(cap);
                }
                _ => {}
            }
            if n < avail {
                w.stats.short_reads += 1;
            }
        }
        for slot in buf.iter_mut().take(n) {
            *slot = w.procs[p].stdout_q.pop_front().unwrap();
        }
        w.stats.stdout_bytes += n as u64;
        w.event("rd", &format!("p{p} {n}"));
        Ok(n)
    }

    fn stderr_read(&mut self, buf: &mut [u8]) -> io::Result<usize> {
        let mut w = self.world.borrow_mut();
        let p = self.p;
        if w.dead() {
            return Ok(0);
        }
        w.check_budget();
        if w.procs[p].stderr_q.is_empty() {
            if w.procs[p].alive {
                w.abort_run(SimAbort::Deadlock(
                    "client reads the solver's stderr to the end while the solver is alive".into(),
                ));
            }
            return Ok(0);
        }
        let n = w.procs[p].stderr_q.len().min(buf.len());
        for slot in buf.iter_mut().take(n) {
            *slot = w.procs[p].stderr_q.pop_front().unwrap();
        }
        w.event("rderr", &format!("p{p} {n}"));
        Ok(n)
    }

    fn try_wait(&mut self) -> io::Result<Option<bool>> {
        let mut w = self.world.borrow_mut();
        let p = self.p;
        if w.dead() {
            return Ok(Some(false));
        }
        w.check_budget();
        let pr = &mut w.procs[p];
        let res = if pr.alive {
            None
        } else if pr.exit_lag > 0 {
            pr.exit_lag -= 1;
            w.stats.exit_lag += 1;
            None
        } else {
            Some(pr.exit_status == Some(0))
        };
        w.event("trywait", &format!("p{p} {res:?}"));
        Ok(res)
    }

    fn wait(&mut self) -> io::Result<bool> {
        let mut w = self.world.borrow_mut();
        let p = self.p;
        if w.dead() {
            return Ok(false);
        }
        if w.procs[p].alive {
            // std's wait closes stdin first; the seam did that already. A solver that has not been
            // told to exit and still has its stdin open would never terminate.
            if !w.procs[p].stdin_closed {
                w.abort_run(SimAbort::Deadlock(
                    "client waits for a solver process that was never told to exit".into(),
                ));
            }
        }
        let ok = w.procs[p].exit_status == Some(0);
        w.event("wait", &format!("p{p} {ok}"));
        Ok(ok)
    }
}

// -------------------------------------------------------------------------------------------------
// A scripted solver: answers response-bearing commands from a list of canned replies.
// Used where the reply text itself is the workload (C14).
// -------------------------------------------------------------------------------------------------

pub struct CannedState {
    pub replies: VecDeque<String>,
    stdout_q: VecDeque<u8>,
    inbuf: Vec<u8>,
    rng: Rng,
    pub benign: bool,
    alive: bool,
    /// the process exits right after its last canned reply (truncated reply + exit)
    pub die_when_empty: bool,
    eof_reads: u32,
    pub commands: Vec<String>,
    pub events: u64,
    pub poisoned: bool,
}

pub type CannedRef = Rc<RefCell<CannedState>>;

pub fn canned_world(seed: u64, replies: Vec<String>, benign: bool, die_when_empty: bool) -> CannedRef {
    Rc::new(RefCell::new(CannedState {
        replies: replies.into(),
        stdout_q: VecDeque::new(),
        inbuf: vec![],
        rng: Rng::stream(seed, "transport"),
        benign,
        alive: true,
        die_when_empty,
        eof_reads: 0,
        commands: vec![],
        events: 0,
        poisoned: false,
    }))
}

pub struct CannedProc {
    st: CannedRef,
}

pub fn make_canned_spawner(st: CannedRef) -> patronus::smt::verif_seam::Spawner {
    Box::new(move |_program: &str, _args: &[String]| {
        Ok(Box::new(CannedProc { st: st.clone() }) as Box<dyn SimProc>)
    })
}

impl CannedState {
    fn dead(&self) -> bool {
        self.poisoned || crate::harness::PANICKED.with(|p| p.get())
    }
    fn abort(&mut self, a: SimAbort) -> ! {
        self.poisoned = true;
        std::panic::panic_any(a)
    }
    fn process(&mut self) {
        while let Some(nl) = self.inbuf.iter().position(|c| *c == b'\n') {
            let line: Vec<u8> = self.inbuf.drain(..=nl).collect();
            let line = String::from_utf8_lossy(&line).trim().to_string();
            if line.is_empty() || !self.alive {
                continue;
            }
            self.commands.push(line.clone());
            if line.starts_with("(exit") {
                self.alive = false;
            } else if line.starts_with("(get-value")
                || line.starts_with("(check-sat")
                || line.starts_with("(get-unsat-assumptions")
            {
                if let Some(r) = self.replies.pop_front() {
                    self.stdout_q.extend(r.as_bytes());
                }
                if self.replies.is_empty() && self.die_when_empty {
                    self.alive = false;
                }
            }
        }
    }
}

impl SimProc for CannedProc {
    fn stdin_write(&mut self, buf: &[u8]) -> io::Result<usize> {
        let mut s = self.st.borrow_mut();
        if s.dead() || !s.alive {
            return Err(io::Error::new(io::ErrorKind::BrokenPipe, "broken pipe"));
        }
        s.events += 1;
        let mut n = buf.len();
        if s.benign && n > 0 {
            match s.rng.below(10) {
                0 => return Err(io::Error::new(io::ErrorKind::Interrupted, "EINTR")),
                1 => n = 1,
                2 => n = 1 + s.rng.usize_below(buf.len()),
                _ => {}
            }
        }
        s.inbuf.extend_from_slice(&buf[..n]);
        s.process();
        Ok(n)
    }
    fn stdin_flush(&mut self) -> io::Result<()> {
        Ok(())
    }
    fn stdin_close(&mut self) {
        if let Ok(mut s) = self.st.try_borrow_mut() {
            s.alive = false;
        }
    }
    fn stdout_read(&mut self, buf: &mut [u8]) -> io::Result<usize> {
        let mut s = self.st.borrow_mut();
        if s.dead() {
            return Err(io::Error::other("poisoned"));
        }
        s.events += 1;
        if buf.is_empty() {
            return Ok(0);
        }
        if s.stdout_q.is_empty() {
            if s.alive {
                s.abort(SimAbort::Deadlock(
                    "client reads the solver's stdout, but the solver (alive) owes no response".into(),
                ));
            }
            s.eof_reads += 1;
            if s.eof_reads > 64 {
                s.abort(SimAbort::Livelock(
                    "more than 64 consecutive reads at end-of-file on the solver's stdout".into(),
                ));
            }
            return Ok(0);
        }
        s.eof_reads = 0;
        let avail = s.stdout_q.len().min(buf.len());
        let mut n = avail;
        if s.benign {
            match s.rng.below(10) {
                0 => return Err(io::Error::new(io::ErrorKind::Interrupted, "EINTR")),
                1 => n = 1,
                2 | 3 => n = 1 + s.rng.usize_below(avail.min(16)),
                _ => {}
            }
        }
        for slot in buf.iter_mut().take(n) {
            *slot = s.stdout_q.pop_front().unwrap();
        }
        Ok(n)
    }
    fn stderr_read(&mut self, _buf: &mut [u8]) -> io::Result<usize> {
        Ok(0)
    }
    fn try_wait(&mut self) -> io::Result<Option<bool>> {
        let s = self.st.borrow();
        if s.dead() {
            return Ok(Some(false));
        }
        Ok(if s.alive { None } else { Some(true) })
    }
    fn wait(&mut self) -> io::Result<bool> {
        let mut s = self.st.borrow_mut();
        if s.dead() {
            return Ok(false);
        }
        if s.alive {
            s.abort(SimAbort::Deadlock(
                "client waits for a solver process that was never told to exit".into(),
            ));
        }
        Ok(true)
    }
}
