pub mod faults;
pub mod sgen;
pub mod harness;
pub mod irx;
pub mod mcrun;
pub mod props;
pub mod refsem;
pub mod refsolver;
pub mod rng;
pub mod runner;
pub mod selftest;
pub mod transport;
pub mod val;

use runner::{Property, Tier};

fn property(id: &str) -> Option<Box<dyn Property>> {
    match id {
        "C02" => Some(Box::new(props::c02::C02)),
        "C03" => Some(Box::new(props::c03::C03)),
        "C04" => Some(Box::new(props::c04::C04)),
        "C07" => Some(Box::new(props::c07::C07)),
        "C10" => Some(Box::new(props::c10::C10)),
        "C12" => Some(Box::new(props::c12::C12)),
        "C13" => Some(Box::new(props::c13::C13)),
        "C14" => Some(Box::new(props::c14::C14)),
        "C15" => Some(Box::new(props::c15::C15)),
        "C18" => Some(Box::new(props::c18::C18)),
        "C20" => Some(Box::new(props::c20::C20)),
        _ => None,
    }
}

fn main() {
    let args: Vec<String> = std::env::args().collect();
    let out = harness::Stdio::silence();
    harness::install_panic_hook();
    if args.len() < 2 {
        out.say("usage: patsim check <ID> [--tier quick|thorough] [--replay FILE]");
        std::process::exit(2);
    }
    match args[1].as_str() {
        "check" => {
            let id = args.get(2).cloned().unwrap_or_default();
            let Some(prop) = property(&id) else {
                out.say(&format!("HARNESS-ERROR: unknown property {id}"));
                std::process::exit(2);
            };
            let mut tier = match std::env::var("VERIF_TIER").as_deref() {
                Ok("thorough") => Tier::Thorough,
                _ => Tier::Quick,
            };
            let mut replay = None;
            let mut i = 3;
            while i < args.len() {
                match args[i].as_str() {
                    "--tier" => {
                        tier = if args.get(i + 1).map(|s| s.as_str()) == Some("thorough") {
                            Tier::Thorough
                        } else {
                            Tier::Quick
                        };
                        i += 1;
                    }
                    "--replay" => {
                        replay = args.get(i + 1).cloned();
                        i += 1;
                    }
                    _ => {}
                }
                i += 1;
            }
            // a replay runs under the budgets of the tier that produced the file
            if let Some(path) = &replay {
                if let Ok(text) = std::fs::read_to_string(path) {
                    if let Ok(v) = serde_json::from_str::<serde_json::Value>(&text) {
                        let t = v["tier"].as_str().or(v["scenario"]["tier"].as_str()).unwrap_or("quick");
                        if t == "thorough" {
                            tier = Tier::Thorough;
                        }
                    }
                }
            }
            if tier == Tier::Thorough && !matches!(prop.id(), "C03" | "C04") {
                // a wider margin between the livelock sentinel and the longest legitimate run, for
                // the many more seeds of this tier. C03 and C04 do not judge termination (a run cut
                // off by the budget is only counted there), so they keep the smaller budget.
                transport::EVENT_BUDGET.store(6_000_000, std::sync::atomic::Ordering::Relaxed);
            }
            if let Some(b) = std::env::var("PATSIM_EVENT_BUDGET").ok().and_then(|s| s.parse::<u64>().ok()) {
                transport::EVENT_BUDGET.store(b, std::sync::atomic::Ordering::Relaxed);
            }
            let code = match replay {
                Some(path) => runner::replay_file(prop.as_ref(), &path, &out),
                None => runner::check(prop.as_ref(), tier, &out),
            };
            std::process::exit(code);
        }
        "shipped-sim-costs" => {
            // wall-clock of one init + 3 steps of patronus' interpreter per shipped design (tooling:
            // used to choose the size bound of the C07 corpus; not part of any check)
            use patronus::sim::{InitKind, Interpreter, Simulator};
            for (name, text, _) in props::mc_common::shipped_corpus(400_000, 10, false).iter() {
                if std::env::var("PATSIM_SKIP").map(|k| name.contains(&k)).unwrap_or(false) {
                    continue;
                }
                let t0 = std::time::Instant::now();
                let mut ctx = patronus::expr::Context::default();
                if let Some(psys) = patronus::btor2::parse_str(&mut ctx, text, Some("x")) {
                    let mut sim = Interpreter::new(&ctx, &psys);
                    sim.init(InitKind::Zero);
                    for _ in 0..3 {
                        sim.step();
                    }
                }
                out.say(&format!("{} ms {} bytes {}", t0.elapsed().as_millis(), text.len(), name));
            }
            std::process::exit(0);
        }
        "shipped-costs" => {
            for (name, _, sys) in props::mc_common::shipped_corpus(400_000, 6, true).iter() {
                out.say(&format!("{} {} states={} bits={} nodes={}", props::mc_common::mc_cost(sys), name, sys.states.len(), sys.state_bits(), sys.nodes.len()));
            }
            std::process::exit(0);
        }
        "selftest" => {
            std::process::exit(selftest::run_all(&out));
        }
        other => {
            out.say(&format!("unknown command {other}"));
            std::process::exit(2);
        }
    }
}
