//! C03 — every reported counterexample is a real execution that hits a bad state.

use super::mc_common::*;
use crate::harness::Outcome;
use crate::mcrun::*;
use crate::refsem::reach::reach;
use crate::rng::Rng;
use crate::runner::*;
use serde_json::{Value, json};

pub struct C03;

fn witness_hash(w: &WitnessData) -> u64 {
    crate::rng::fnv1a(format!("{w:?}").as_bytes())
}

/// A witness that does not replay on the system as generated is a C03 violation only if the
/// model checker was given that system. With `simplify = true` it was given the simplified system;
/// the same scenario is then re-run without simplification: if that run is clean, the discrepancy
/// comes from simplification (C01/C11, not claimed here) and is only counted.
pub fn judge(scn: &McScenario, obs: &McObservation, acc: &mut Acc) -> Option<Violation> {
    let v = judge_raw(scn, obs, acc)?;
    if scn.cfg.simplify {
        let mut plain = scn.clone();
        plain.cfg.simplify = false;
        let obs2 = plain.execute(false);
        let mut scratch = Acc::default();
        if judge_raw(&plain, &obs2, &mut scratch).is_none() {
            acc.count("note.discrepancy_attributed_to_simplification", 1);
            return None;
        }
    }
    Some(v)
}

fn judge_raw(scn: &McScenario, obs: &McObservation, acc: &mut Acc) -> Option<Violation> {
    let Outcome::Ok(Verdict::Fail(wit)) = &obs.outcome else {
        acc.count("skipped.not_a_failure_verdict", 1);
        return None;
    };
    acc.count("witnesses_checked", 1);
    let Some(names) = &obs.parsed else {
        return None;
    };
    let v = match check_witness(&scn.sys, names, wit) {
        Ok(()) => None,
        Err(e) if e.starts_with("HARNESS") => {
            acc.stub_failure = Some(e);
            None
        }
        Err(e) => {
            // classify by the first words of the oracle message (stable)
            let site = if e.contains("is named") {
                "name-mismatch"
            } else if e.contains("init expression") {
                "init-value-mismatch"
            } else if e.contains("constraint") {
                "constraint-violated"
            } else if e.contains("no bad state holds") {
                "no-bad-at-last-step"
            } else if e.contains("lists failed bad states") {
                "failed-list-mismatch"
            } else if e.contains("named") {
                "name-mismatch"
            } else if e.contains("no value") || e.contains("no initial value") {
                "missing-value"
            } else if e.contains("does not fit type") {
                "ill-typed-value"
            } else {
                "shape"
            };
            Some(Violation {
                property: "C03".into(),
                oracle: "C03/replay".into(),
                class: "BogusWitness".into(),
                site: site.into(),
                detail: format!("{e} [{}]", scn.cfg.describe()),
            })
        }
    };
    match v {
        Some(v) if filter_known(acc, &v) => None,
        other => other,
    }
}

impl Property for C03 {
    fn id(&self) -> &'static str {
        "C03"
    }
    fn runs(&self, tier: Tier) -> usize {
        match tier {
            Tier::Quick => 30_000,
            Tier::Thorough => 1_500_000,
        }
    }

    fn run(&self, run_seed: u64, tier: Tier, acc: &mut Acc) -> Option<(Violation, Value)> {
        let mut rng = Rng::stream(run_seed, "workload");
        let (msb, mib) = match tier {
            Tier::Quick => (8, 3),
            Tier::Thorough => (10, 4),
        };
        let mut crng = Rng::stream(run_seed, "config");
        // one run in eight: a design shipped under inputs/ (no exhaustive oracle needed for C03:
        // any witness that comes back is replayed in the reference semantics of the same text)
        if crng.chance(1, 8) {
            let corpus = shipped_for_mc(if tier == Tier::Thorough { 60_000 } else { 12_000 });
            if !corpus.is_empty() {
                let (name, text, sys) = corpus[crng.usize_below(corpus.len())].clone();
                if !sys.bads.is_empty() && sys.states.iter().all(|s| s.next.is_some() || s.init.is_none()) {
                    let scn = McScenario {
                        sys,
                        cfg: McCfg {
                            profile: crng.usize_below(4),
                            simplify: crng.bool(),
                            engine: Engine::Bmc {
                                individually: crng.bool(),
                                check_constraints: false,
                                k: crng.range(1, 4),
                            },
                        },
                        sim_seed: crate::rng::mix(&[run_seed, 33]),
                        canonical_policy: false,
                        benign: true,
                        faults: vec![],
                        original_btor2: Some(text),
                    };
                    let obs = scn.execute(false);
                    // a stub limit on a real design is not a finding of any kind
                    let mut obs = obs;
                    if obs.stub_failure.as_deref().map(|f| f.contains("STUB-LIMIT")).unwrap_or(false) {
                        obs.stub_failure = None;
                        acc.count("skipped.shipped_design_beyond_stub_limits", 1);
                        return None;
                    }
                    obs.account(acc);
                    acc.evaluations += 1;
                    acc.count("workload.shipped_design_runs", 1);
                    if let Outcome::Ok(Verdict::Fail(w)) = &obs.outcome {
                        acc.count("probe.witness_on_shipped_design", 1);
                        acc.distinct.insert(crate::rng::mix(&[crate::rng::fnv1a(name.as_bytes()), witness_hash(w)]));
                    }
                    if let Some(v) = judge(&scn, &obs, acc) {
                        return Some((v, scn.to_json()));
                    }
                    return None;
                }
            }
        }
        let use_pdr = crng.chance(1, 5);
        // find a failing system
        let mut found = None;
        for _ in 0..40 {
            // PDR without generalisation blocks states one at a time: its run length grows with
            // 2^(state bits), so PDR workloads keep the same size bound in both tiers
            let (sb, ib) = if use_pdr { (msb.min(6), mib.min(3)) } else { (msb, mib) };
            let sys = gen_system(&mut rng, sb, ib, use_pdr, |c| {
                if use_pdr {
                    c.arrays = false;
                }
            });
            let r = reach(&sys, 0);
            if let Some(d) = r.min_bad_depth {
                if d <= 8 {
                    found = Some((sys, d));
                    break;
                }
            }
        }
        let (sys, d) = found?;
        // several solver answer policies for the same failing system: which model comes back
        for variant in 0..3u64 {
            let engine = if use_pdr {
                Engine::Pdr {
                    disable_cores: crng.bool(),
                }
            } else {
                Engine::Bmc {
                    individually: crng.bool(),
                    check_constraints: false,
                    k: (d as u64 + crng.below(3)).max(1),
                }
            };
            let cfg = McCfg {
                profile: crng.usize_below(4),
                simplify: crng.bool(),
                engine,
            };
            let scn = McScenario {
                sys: sys.clone(),
                cfg,
                sim_seed: crate::rng::mix(&[run_seed, 3, variant]),
                canonical_policy: false,
                benign: true,
                faults: vec![],
                original_btor2: None,
            };
            let obs = scn.execute(false);
            obs.account(acc);
            acc.evaluations += 1;
            if let Outcome::Ok(Verdict::Fail(w)) = &obs.outcome {
                acc.distinct.insert(crate::rng::mix(&[shape_hash(&scn.sys), witness_hash(w)]));
                acc.distinct2.insert(shape_hash(&scn.sys));
                acc.count("probe.witness_longer_than_3_steps", (w.inputs.len() > 3) as u64);
                acc.count("probe.witness_with_array_state", w.init.iter().any(|v| matches!(v, Some(crate::val::Val::A(_)))) as u64);
                acc.count("probe.witness_lists_2_or_more_bads", (w.failed_safety.len() >= 2) as u64);
                acc.count("probe.witness_from_pdr_fallback", use_pdr as u64);
                let nonzero = w
                    .inputs
                    .iter()
                    .flatten()
                    .filter(|v| matches!(v, Some(crate::val::Val::B(b)) if b.v != 0))
                    .count();
                acc.count("witness.nonzero_input_values", nonzero as u64);
                acc.count("witness.input_values", w.inputs.iter().map(|s| s.len()).sum::<usize>() as u64);
                if acc.samples.is_empty() {
                    acc.samples.push(json!({
                        "btor2": scn.sys.to_btor2(),
                        "config": scn.cfg.describe(),
                        "policy": scn.policy().describe(),
                        "witness": format!("{w:?}"),
                    }));
                }
            }
            acc.count(&format!("config.profile.{}", PROFILE_NAMES[scn.cfg.profile]), 1);
            if let Some(v) = judge(&scn, &obs, acc) {
                return Some((v, scn.to_json()));
            }
        }
        None
    }

    fn replay(&self, scenario: &Value, acc: &mut Acc) -> Result<Option<Violation>, String> {
        let scn = McScenario::from_json(scenario)?;
        let obs = scn.execute(false);
        obs.account(acc);
        Ok(judge(&scn, &obs, acc))
    }

    fn shrink(&self, scenario: &Value) -> Vec<Value> {
        match McScenario::from_json(scenario) {
            Ok(s) => s.shrink().iter().map(|s| s.to_json()).collect(),
            Err(_) => vec![],
        }
    }

    fn meta(&self) -> EvidenceMeta {
        EvidenceMeta {
            level: "exploration",
            rule: "failing systems (oracle: exhaustive reachability finds a bad state at depth <= 8) run through bmc (4/5) or pdr with its BMC fallback (1/5) three times each, with three different seeded answer policies of the simulated solver (random / zero-biased / one-biased models, random don't-care values, random print forms); every returned witness is replayed in the independent reference semantics. A case is distinct by (system shape hash, witness contents).".into(),
            assumptions: vec![
                "the simulated solver returns arbitrary legal models; it self-validates each model against all active assertions".into(),
                "states with init but without next are excluded (no witness slot for their later values)".into(),
            ],
            real_components: vec!["btor2::parse_str", "simplify_expressions", "mc::bmc", "mc::pdr (incl. restart + BMC fallback)", "get_witness / get_smt_value", "smt::parser::parse_get_value_response", "SmtLibSolverCtx"],
            stub_components: vec!["solver process (RefSolver)", "pipes and process table (transport)"],
            distinct_measure: "distinct (system shape, witness) pairs".into(),
            distinct2_measure: "distinct failing system shapes".into(),
        }
    }
}
