//! C20 — value summaries denote a total function and operations preserve it.
//! One shared GuardCtx (BDD manager) and Context; a seeded history of summary operations; the
//! reference model is the total function {valuations of the symbols} -> value, as a table.

use crate::harness::*;
use crate::irx;
use crate::rng::Rng;
use crate::runner::*;
use crate::val::*;
use patronus::expr::{Context, ExprRef, TypeCheck};
use patronus_dse::{GuardCtx, ValueSummary};
use rustc_hash::FxHashMap;
use serde_json::{Value, json};
use std::collections::HashMap;

pub struct C20;

#[derive(Clone, Debug, PartialEq, Eq)]
pub enum VOp {
    /// new summary holding alphabet value #i
    New(usize),
    /// binary operation #op over pool entries a and b (consumed)
    Bin(usize, usize, usize),
    /// if-then-else over pool entries (consumed)
    Ite(usize, usize, usize),
    Coalesce(usize),
    Import(usize),
    /// convert Boolean alphabet expression #i into a guard
    ExprToGuard(usize),
}

fn vop_to_json(o: &VOp) -> Value {
    match o {
        VOp::New(i) => json!(["new", i]),
        VOp::Bin(op, a, b) => json!(["bin", op, a, b]),
        VOp::Ite(c, t, f) => json!(["ite", c, t, f]),
        VOp::Coalesce(s) => json!(["coalesce", s]),
        VOp::Import(s) => json!(["import_into_guard", s]),
        VOp::ExprToGuard(i) => json!(["expr_to_guard", i]),
    }
}

fn vop_from_json(v: &Value) -> Result<VOp, String> {
    let u = |i: usize| v[i].as_u64().map(|x| x as usize).ok_or(format!("arg {i}"));
    Ok(match v[0].as_str().ok_or("op")? {
        "new" => VOp::New(u(1)?),
        "bin" => VOp::Bin(u(1)?, u(2)?, u(3)?),
        "ite" => VOp::Ite(u(1)?, u(2)?, u(3)?),
        "coalesce" => VOp::Coalesce(u(1)?),
        "import_into_guard" => VOp::Import(u(1)?),
        "expr_to_guard" => VOp::ExprToGuard(u(1)?),
        o => return Err(format!("unknown op {o}")),
    })
}

#[derive(Clone, Debug)]
pub struct SumScenario {
    pub alphabet_seed: u64,
    pub ops: Vec<VOp>,
}

impl SumScenario {
    fn to_json(&self) -> Value {
        json!({"workload": {"kind": "ops", "alphabet_seed": format!("{:#x}", self.alphabet_seed),
               "ops": self.ops.iter().map(vop_to_json).collect::<Vec<_>>()}})
    }
    fn from_json(v: &Value) -> Result<Self, String> {
        let mut ops = vec![];
        for o in v["workload"]["ops"].as_array().ok_or("ops")? {
            ops.push(vop_from_json(o)?);
        }
        Ok(SumScenario {
            alphabet_seed: u64::from_str_radix(
                v["workload"]["alphabet_seed"].as_str().ok_or("alphabet_seed")?.trim_start_matches("0x"),
                16,
            )
            .map_err(|e| e.to_string())?,
            ops,
        })
    }
}

const N_BOOL_SYMS: usize = 4;
const BV_W: u32 = 2;

struct Alphabet {
    /// symbols with their widths: p0..p3 (1 bit), x, y (2 bits)
    symbols: Vec<(String, u32)>,
    bools: Vec<ExprRef>,
    datas: Vec<ExprRef>,
}

fn build_alphabet(ctx: &mut Context, seed: u64) -> Alphabet {
    let mut rng = Rng::new(seed);
    let mut symbols = vec![];
    let mut ps = vec![];
    for i in 0..N_BOOL_SYMS {
        let n = format!("p{i}");
        ps.push(ctx.bv_symbol(&n, 1));
        symbols.push((n, 1));
    }
    let x = ctx.bv_symbol("x", BV_W);
    let y = ctx.bv_symbol("y", BV_W);
    symbols.push(("x".into(), BV_W));
    symbols.push(("y".into(), BV_W));
    // Boolean expressions: symbols, opaque comparisons, and random combinations
    let gt = ctx.greater(x, y);
    let eq = ctx.equal(x, y);
    let mut bools: Vec<ExprRef> = ps.clone();
    bools.push(gt);
    bools.push(eq);
    bools.push(ctx.get_true());
    bools.push(ctx.get_false());
    for _ in 0..10 {
        let a = *rng.pick(&bools);
        let b = *rng.pick(&bools);
        let c = *rng.pick(&bools);
        let e = match rng.below(7) {
            0 => ctx.not(a),
            1 => ctx.and(a, b),
            2 => ctx.or(a, b),
            3 => ctx.xor(a, b),
            4 => ctx.implies(a, b),
            5 => ctx.ite(a, b, c), // not imported into the BDD: becomes a terminal
            _ => ctx.equal(a, b),  // likewise a terminal
        };
        bools.push(e);
    }
    // data values: a small alphabet so that equal values recur
    let d0 = ctx.bv_symbol("d0", 4);
    let d1 = ctx.bv_symbol("d1", 4);
    let mut datas = vec![d0, d1];
    for v in 0..3u64 {
        datas.push(ctx.bit_vec_val(v, 4u32));
    }
    Alphabet { symbols, bools, datas }
}

type BinFn = fn(&mut Context, ExprRef, ExprRef) -> ExprRef;

fn f_add(c: &mut Context, a: ExprRef, b: ExprRef) -> ExprRef {
    c.add(a, b)
}
fn f_and(c: &mut Context, a: ExprRef, b: ExprRef) -> ExprRef {
    c.and(a, b)
}
fn f_or(c: &mut Context, a: ExprRef, b: ExprRef) -> ExprRef {
    c.or(a, b)
}
fn f_first(_c: &mut Context, a: ExprRef, _b: ExprRef) -> ExprRef {
    a
}
fn f_second(_c: &mut Context, _a: ExprRef, b: ExprRef) -> ExprRef {
    b
}
/// (function, name): `first`/`second` make equal values recur, which is what coalesce merges
const BIN_FNS: [(BinFn, &str); 5] = [
    (f_add, "add"),
    (f_and, "and"),
    (f_or, "or"),
    (f_first, "first"),
    (f_second, "second"),
];

struct Entry {
    real: ValueSummary<ExprRef>,
    /// value per valuation of the symbols
    table: Vec<ExprRef>,
    is_bool: bool,
}

fn mk(class: &str, site: &str, detail: String) -> Violation {
    Violation {
        property: "C20".into(),
        oracle: "C20/table".into(),
        class: class.into(),
        site: site.into(),
        detail,
    }
}

fn judge(scn: &SumScenario, acc: &mut Acc) -> Option<Violation> {
    let mut result: Option<Violation> = None;
    let mut n_ops = 0u64;
    let mut probes: FxHashMap<&'static str, u64> = FxHashMap::default();
    let out = guarded(|| {
        let mut ctx = Context::default();
        let mut gc = GuardCtx::default();
        let al = build_alphabet(&mut ctx, scn.alphabet_seed);
        assert_eq!(al.bools.len(), N_BOOLS, "HARNESS: alphabet size changed");
        // all valuations of the symbols
        let total_bits: u32 = al.symbols.iter().map(|s| s.1).sum();
        let n_val = 1usize << total_bits;
        let valuation = |v: usize| -> FxHashMap<String, Val> {
            let mut m = FxHashMap::default();
            let mut shift = 0;
            for (name, w) in &al.symbols {
                let bits = (v >> shift) & ((1usize << w) - 1);
                m.insert(name.clone(), Val::B(Bv::new(*w, bits as u128)));
                shift += w;
            }
            m
        };
        let vals: Vec<FxHashMap<String, Val>> = (0..n_val).map(valuation).collect();
        let eval_bool = |ctx: &Context, e: ExprRef, v: usize| -> bool {
            let mut memo = FxHashMap::default();
            irx::eval(ctx, e, &|n| vals[v].get(n).cloned(), &mut memo)
                .expect("alphabet expressions are closed over the symbols")
                .bv()
                .is_true()
        };
        // truth of every BDD terminal under valuation v
        let label_values = |ctx: &Context, gc: &GuardCtx, v: usize| -> HashMap<ExprRef, bool> {
            let mut m = HashMap::new();
            for l in gc.verif_labels() {
                m.insert(l, eval_bool(ctx, l, v));
            }
            m
        };
        let check = |ctx: &Context, gc: &GuardCtx, e: &Entry, what: &str, opi: usize| -> Option<Violation> {
            let entries = e.real.verif_entries();
            if entries.is_empty() {
                return Some(mk("EmptySummary", what, format!("op #{opi} {what}: summary has no entries")));
            }
            for v in 0..n_val {
                let lv = label_values(ctx, gc, v);
                // the constant tests agree with the guards' meaning
                for (i, (g, _)) in entries.iter().enumerate() {
                    let holds = gc.verif_eval(*g, &lv);
                    if (gc.is_false(*g) && holds) || (gc.is_true(*g) && !holds) {
                        return Some(mk(
                            "GuardConstantTestWrong",
                            what,
                            format!("op #{opi} {what}: entry {i}: is_false={} is_true={} but under valuation {v:#b} the guard evaluates to {holds}", gc.is_false(*g), gc.is_true(*g)),
                        ));
                    }
                }
                let holding: Vec<usize> = (0..entries.len()).filter(|i| gc.verif_eval(entries[*i].0, &lv)).collect();
                if holding.len() > 1 {
                    return Some(mk(
                        "GuardsOverlap",
                        what,
                        format!("op #{opi} {what}: under valuation {v:#b} the guards of entries {holding:?} hold at once ({} entries)", entries.len()),
                    ));
                }
                if holding.is_empty() {
                    return Some(mk(
                        "GuardsNotExhaustive",
                        what,
                        format!("op #{opi} {what}: under valuation {v:#b} no entry guard holds ({} entries)", entries.len()),
                    ));
                }
                let got = entries[holding[0]].1;
                if got != e.table[v] {
                    use patronus::expr::SerializableIrNode;
                    return Some(mk(
                        "WrongValue",
                        what,
                        format!(
                            "op #{opi} {what}: under valuation {v:#b} the summary gives {} but the operation applied to the argument values gives {}",
                            got.serialize_to_str(ctx),
                            e.table[v].serialize_to_str(ctx)
                        ),
                    ));
                }
            }
            None
        };
        let mut pool: Vec<Entry> = vec![];
        for (opi, op) in scn.ops.iter().enumerate() {
            n_ops += 1;
            match op {
                VOp::New(i) => {
                    let n_b = al.bools.len();
                    let i = i % (n_b + al.datas.len());
                    let (value, is_bool) = if i < n_b { (al.bools[i], true) } else { (al.datas[i - n_b], false) };
                    let e = Entry {
                        real: ValueSummary::new(&mut gc, value),
                        table: vec![value; n_val],
                        is_bool,
                    };
                    if let Some(v) = check(&ctx, &gc, &e, "new", opi) {
                        result = Some(v);
                        return Ok(());
                    }
                    pool.push(e);
                }
                VOp::Bin(opk, a, b) => {
                    if pool.len() < 2 {
                        continue;
                    }
                    let a = a % pool.len();
                    let ea = pool.remove(a);
                    let b = b % pool.len();
                    let eb = pool.remove(b);
                    if ea.is_bool != eb.is_bool {
                        pool.push(ea);
                        pool.push(eb);
                        continue;
                    }
                    // pick an operation that fits the value kind
                    let cands: Vec<usize> = if ea.is_bool { vec![1, 2, 3, 4] } else { vec![0, 3, 4] };
                    let k = cands[opk % cands.len()];
                    let (f, name) = BIN_FNS[k];
                    let (na, nb) = (ea.real.len(), eb.real.len());
                    let table: Vec<ExprRef> = (0..n_val).map(|v| f(&mut ctx, ea.table[v], eb.table[v])).collect();
                    let real = ValueSummary::apply_bin_op(&mut ctx, &mut gc, f, ea.real, eb.real);
                    *probes.entry("probe.bin_op_on_multi_entry_summaries").or_insert(0) += (na > 1 && nb > 1) as u64;
                    let e = Entry { real, table, is_bool: ea.is_bool };
                    if let Some(v) = check(&ctx, &gc, &e, &format!("apply_bin_op({name})"), opi) {
                        result = Some(v);
                        return Ok(());
                    }
                    pool.push(e);
                }
                VOp::Ite(c, t, f) => {
                    // needs a Boolean condition and two summaries of the same kind
                    let Some(ci) = (0..pool.len()).map(|k| (k + c) % pool.len().max(1)).find(|k| pool[*k].is_bool) else {
                        continue;
                    };
                    if pool.len() < 3 {
                        continue;
                    }
                    let ec = pool.remove(ci);
                    let ti = t % pool.len();
                    let et = pool.remove(ti);
                    let Some(fi) = (0..pool.len()).map(|k| (k + f) % pool.len()).find(|k| pool[*k].is_bool == et.is_bool) else {
                        pool.push(ec);
                        pool.push(et);
                        continue;
                    };
                    let ef = pool.remove(fi);
                    let table: Vec<ExprRef> = (0..n_val)
                        .map(|v| if eval_bool(&ctx, ec.table[v], v) { et.table[v] } else { ef.table[v] })
                        .collect();
                    *probes.entry("probe.ite_with_multi_entry_condition").or_insert(0) += (ec.real.len() > 1) as u64;
                    let real = ValueSummary::apply_ite(&mut ctx, &mut gc, ec.real, et.real, ef.real);
                    let e = Entry { real, table, is_bool: et.is_bool };
                    if let Some(v) = check(&ctx, &gc, &e, "apply_ite", opi) {
                        result = Some(v);
                        return Ok(());
                    }
                    pool.push(e);
                }
                VOp::Coalesce(s) => {
                    if pool.is_empty() {
                        continue;
                    }
                    let s = s % pool.len();
                    let before = pool[s].real.len();
                    // how many entries share a value with an earlier entry, and in which order
                    let vals_before: Vec<ExprRef> = pool[s].real.verif_entries().iter().map(|e| e.1).collect();
                    pool[s].real.coalesce(&mut gc);
                    let after = pool[s].real.len();
                    *probes.entry("probe.coalesce_deleted_2_or_more_entries").or_insert(0) += (before >= after + 2) as u64;
                    // "A,B,B,A" style recurrence: the duplicates are discovered in non-monotone order
                    let mut last_seen: FxHashMap<ExprRef, usize> = FxHashMap::default();
                    let mut dels: Vec<usize> = vec![];
                    for (i, v) in vals_before.iter().enumerate() {
                        if let Some(p) = last_seen.get(v) {
                            dels.push(*p);
                        }
                        last_seen.insert(*v, i);
                    }
                    *probes.entry("probe.coalesce_with_non_monotone_delete_list").or_insert(0) +=
                        dels.windows(2).any(|w| w[0] > w[1]) as u64;
                    if let Some(v) = check(&ctx, &gc, &pool[s], "coalesce", opi) {
                        result = Some(v);
                        return Ok(());
                    }
                }
                VOp::Import(s) => {
                    let Some(si) = (0..pool.len()).map(|k| (k + s) % pool.len().max(1)).find(|k| pool[*k].is_bool) else {
                        continue;
                    };
                    let t = ctx.get_true();
                    let f = ctx.get_false();
                    let table: Vec<ExprRef> = (0..n_val)
                        .map(|v| if eval_bool(&ctx, pool[si].table[v], v) { t } else { f })
                        .collect();
                    pool[si].real.import_into_guard(&mut ctx, &mut gc);
                    pool[si].table = table;
                    if pool[si].real.len() > 2 {
                        result = Some(mk("TooManyEntries", "import_into_guard", format!("op #{opi}: import_into_guard left {} entries", pool[si].real.len())));
                        return Ok(());
                    }
                    if let Some(v) = check(&ctx, &gc, &pool[si], "import_into_guard", opi) {
                        result = Some(v);
                        return Ok(());
                    }
                }
                VOp::ExprToGuard(i) => {
                    let e = al.bools[i % al.bools.len()];
                    let g = gc.expr_to_guard(&ctx, e);
                    for v in 0..n_val {
                        let lv = label_values(&ctx, &gc, v);
                        if gc.verif_eval(g, &lv) != eval_bool(&ctx, e, v) {
                            use patronus::expr::SerializableIrNode;
                            result = Some(mk(
                                "GuardNotEquivalent",
                                "expr_to_guard",
                                format!("op #{opi}: guard of {} differs from the expression under valuation {v:#b}", e.serialize_to_str(&ctx)),
                            ));
                            return Ok(());
                        }
                    }
                    debug_assert_eq!(e.get_bv_type(&ctx), Some(1));
                }
            }
        }
        Ok(())
    });
    acc.sim_steps += n_ops;
    acc.count("summary_operations", n_ops);
    for (k, v) in probes {
        acc.count(k, v);
    }
    let v = match out {
        Outcome::Ok(()) => result,
        Outcome::Panic { loc, msg } => Some(mk("Panic", &loc, format!("summary operation panicked at {loc}: {msg}"))),
        other => Some(mk(other.class(), "value_summary", other.describe())),
    };
    match v {
        Some(v) if filter_known(acc, &v) => None,
        other => other,
    }
}

/// number of Boolean alphabet entries (4 symbols, 2 comparisons, 2 literals, 10 combinations)
const N_BOOLS: usize = 18;

fn gen_ops(rng: &mut Rng, n: usize) -> Vec<VOp> {
    let mut ops = vec![];
    if rng.chance(1, 2) {
        // a chain ite(c1, v1, ite(c2, v2, ... vn)) over 2..3 distinct values that recur in a random
        // order (e.g. A,B,B,A), then coalesce: entries with equal values in every relative order
        let len = rng.range(3, 5) as usize;
        let distinct = rng.range(2, 3) as usize;
        let vals: Vec<usize> = (0..len).map(|_| N_BOOLS + rng.usize_below(distinct)).collect();
        ops.push(VOp::New(vals[len - 1]));
        for i in (0..len - 1).rev() {
            ops.push(VOp::New(vals[i]));
            ops.push(VOp::New(i % 4)); // condition p_i
            ops.push(VOp::Ite(2, 1, 0));
        }
        ops.push(VOp::Coalesce(0));
    }
    for _ in 0..3 {
        ops.push(VOp::New(rng.usize_below(64)));
    }
    for _ in 0..n {
        ops.push(match rng.below(16) {
            0..=4 => VOp::New(rng.usize_below(64)),
            5..=7 => VOp::Bin(rng.usize_below(8), rng.usize_below(8), rng.usize_below(8)),
            8..=10 => VOp::Ite(rng.usize_below(8), rng.usize_below(8), rng.usize_below(8)),
            11 | 12 => VOp::Coalesce(rng.usize_below(8)),
            13 => VOp::Import(rng.usize_below(8)),
            _ => VOp::ExprToGuard(rng.usize_below(64)),
        });
    }
    ops
}

impl Property for C20 {
    fn id(&self) -> &'static str {
        "C20"
    }
    fn runs(&self, tier: Tier) -> usize {
        match tier {
            Tier::Quick => 50_000,
            Tier::Thorough => 3_000_000,
        }
    }

    fn run(&self, run_seed: u64, _tier: Tier, acc: &mut Acc) -> Option<(Violation, Value)> {
        let mut rng = Rng::stream(run_seed, "workload");
        let n = rng.range(2, 25) as usize;
        let scn = SumScenario {
            alphabet_seed: rng.next_u64(),
            ops: gen_ops(&mut rng, n),
        };
        acc.evaluations += 1;
        let kinds: Vec<u8> = scn
            .ops
            .iter()
            .map(|o| match o {
                VOp::New(_) => 0,
                VOp::Bin(..) => 1,
                VOp::Ite(..) => 2,
                VOp::Coalesce(_) => 3,
                VOp::Import(_) => 4,
                VOp::ExprToGuard(_) => 5,
            })
            .collect();
        acc.distinct.insert(crate::rng::mix(&[crate::rng::fnv1a(&kinds), scn.alphabet_seed]));
        acc.distinct2.insert(crate::rng::fnv1a(&kinds));
        if acc.samples.is_empty() {
            acc.samples.push(scn.to_json());
        }
        judge(&scn, acc).map(|v| (v, scn.to_json()))
    }

    fn replay(&self, scenario: &Value, acc: &mut Acc) -> Result<Option<Violation>, String> {
        Ok(judge(&SumScenario::from_json(scenario)?, acc))
    }

    fn shrink(&self, scenario: &Value) -> Vec<Value> {
        let Ok(scn) = SumScenario::from_json(scenario) else {
            return vec![];
        };
        let mut out = vec![];
        let n = scn.ops.len();
        if n > 2 {
            let mut s = scn.clone();
            s.ops.truncate(n - 1);
            out.push(s);
        }
        for i in (0..n).rev() {
            let mut s = scn.clone();
            s.ops.remove(i);
            out.push(s);
        }
        out.iter().map(|s| s.to_json()).collect()
    }

    fn meta(&self) -> EvidenceMeta {
        EvidenceMeta {
            level: "exploration",
            rule: "one shared GuardCtx (BDD manager whose node ids depend on everything done before) and one Context; a seeded history of 5..28 operations {ValueSummary::new, apply_bin_op (add / and / or / first / second), apply_ite, coalesce, import_into_guard, expr_to_guard} over 4 Boolean symbols, two 2-bit symbols behind opaque comparison terminals and a 5-value data alphabet (so that equal values recur in every relative order). Reference model: each summary as the total function {all 256 valuations of the symbols} -> value (values are hash-consed references, so 'the operation applied to the values' is comparable by identity; Boolean values used as ite conditions are evaluated by the independent evaluator, non-Boolean-rooted sub-terms are terminals as expr_to_guard documents). After every operation (hook H3): exactly one entry guard holds under every valuation (pairwise disjoint + jointly exhaustive) and its value equals the table; expr_to_guard(e) agrees with evaluating e. Distinct by (operation-kind sequence, alphabet).".into(),
            assumptions: vec![
                "summaries are consumed by apply_bin_op / apply_ite (no Clone), so histories use each summary once".into(),
                "exhaustive over valuations of the 8 symbol bits, not over histories".into(),
            ],
            real_components: vec!["patronus_dse::ValueSummary (new, apply_bin_op, apply_ite, coalesce, import_into_guard)", "patronus_dse::GuardCtx::expr_to_guard", "boolean_expression::BDD"],
            stub_components: vec!["none (operation history + table model)"],
            distinct_measure: "distinct (operation-kind sequence, alphabet) pairs".into(),
            distinct2_measure: "distinct operation-kind sequences".into(),
        }
    }
}
