//! C15 — solver faults surface as errors, never as verdicts or hangs.
//! For every sampled conversation: every response-bearing point x every lossy fault kind.

use super::mc_common::*;
use crate::faults::*;
use crate::harness::Outcome;
use crate::mcrun::*;
use crate::refsem::reach::reach;
use crate::refsolver::CmdKind;
use crate::rng::Rng;
use crate::runner::*;
use serde_json::{Value, json};

pub struct C15;

fn norm_ws(s: &str) -> String {
    s.split_whitespace().collect::<Vec<_>>().join(" ")
}

/// the oracle for one hostile run; `clean` is the fault-free twin (same seeds)
pub fn judge_hostile(scn: &McScenario, obs: &McObservation, clean: &McObservation, acc: &mut Acc) -> Option<Violation> {
    let fault = scn.faults.first()?;
    let fired = obs.fired.first();
    let pending_kind = match &fault.at {
        FaultAt::Response(r) => clean
            .wire
            .iter()
            .find(|w| w.resp_index == Some(*r))
            .map(|w| w.kind.short())
            .unwrap_or("?"),
        FaultAt::Command(c) => clean.wire.get(*c).map(|w| w.kind.short()).unwrap_or("?"),
        FaultAt::Spawn(_) => "spawn",
        FaultAt::ProcResponse(..) => "session-response",
    };
    let site_base = format!("{}@{}", fault.kind.class(), pending_kind);
    let mk = |oracle: &str, class: &str, site: String, detail: String| Violation {
        property: "C15".into(),
        oracle: oracle.into(),
        class: class.into(),
        site,
        detail: format!("{detail} [fault: {}; {}]", fault.describe(), scn.cfg.describe()),
    };
    // 1. never panic / deadlock / livelock
    let v = match &obs.outcome {
        Outcome::Panic { loc, msg } => Some(mk(
            "C15/1",
            "Panic",
            loc.clone(),
            format!("call panicked at {loc}: {msg}"),
        )),
        Outcome::Deadlock(d) => Some(mk("C15/1", "Deadlock", site_base.clone(), format!("call blocks forever: {d}"))),
        Outcome::Livelock(d) => Some(mk("C15/1", "Livelock", site_base.clone(), format!("call never returns: {d}"))),
        Outcome::FuelExhausted => None,
        Outcome::Ok(verdict) => {
            match fired {
                Some(f) if f.effective => {
                    // 2. a verdict must not rest on an answer that was not received intact
                    match verdict {
                        Verdict::Unknown => None,
                        v => Some(mk(
                            "C15/2",
                            "VerdictDespiteFault",
                            site_base.clone(),
                            format!("call returned the verdict {} although a solver answer it consumed was faulty", v.short()),
                        )),
                    }
                }
                _ => {
                    // 4. fault not effective: same result as the clean twin
                    if Outcome::Ok(verdict.clone()) != clean.outcome {
                        Some(mk(
                            "C15/4",
                            "ResultChanged",
                            site_base.clone(),
                            format!(
                                "a fault that altered no consumed answer changed the result from {} to {}",
                                clean.outcome.class(),
                                verdict.short()
                            ),
                        ))
                    } else {
                        None
                    }
                }
            }
        }
        Outcome::Err(e) => {
            // 3. an error message printed by the solver is carried unmangled
            match (&fault.kind, fired) {
                (FaultKind::ErrReply { msg, .. }, Some(_)) => {
                    let carried = obs.from_solver_msg.clone();
                    match carried {
                        Some(c) => {
                            let want = norm_ws(msg);
                            let want_escaped = norm_ws(&msg.replace('"', "\"\""));
                            let got = norm_ws(&c);
                            if got.contains(&want) || got.contains(&want_escaped) {
                                None
                            } else {
                                Some(mk(
                                    "C15/3",
                                    "MangledMessage",
                                    "error-reply".into(),
                                    format!("solver printed (error \"{msg}\") but the returned error carries `{c}`"),
                                ))
                            }
                        }
                        None => Some(mk(
                            "C15/3",
                            "MessageLost",
                            format!("error-reply:{}", obs.err_variant.unwrap_or("?")),
                            format!("solver printed (error \"{msg}\") but the call returned a {} error without it: {e}", obs.err_variant.unwrap_or("?")),
                        )),
                    }
                }
                // a crash message on stderr of a solver that died with a failure status: the
                // statement does not oblige the caller to find it (whether the exit status is
                // already visible when stdout reaches end-of-file is a race), but when the returned
                // error carries solver text, that text must be the message, unmangled
                (FaultKind::Exit { stderr, status, .. }, Some(_)) | (FaultKind::ExitAfterReply { stderr, status }, Some(_))
                    if !stderr.trim().is_empty() && *status != 0 =>
                {
                    match obs.from_solver_msg.as_ref() {
                        Some(c) if norm_ws(c).contains(&norm_ws(stderr)) => {
                            acc.count("probe.stderr_message_carried", 1);
                            None
                        }
                        Some(c) if !c.trim().is_empty() => Some(mk(
                            "C15/3",
                            "MangledMessage",
                            "stderr-of-dead-solver".into(),
                            format!("solver died printing `{}` on stderr but the returned error carries `{c}`", stderr.trim()),
                        )),
                        _ => {
                            acc.count("note.stderr_message_not_carried", 1);
                            None
                        }
                    }
                }
                _ => None,
            }
        }
    };
    match v {
        Some(v) if filter_known(acc, &v) => None,
        other => other,
    }
}

fn faults_for_point(rng: &mut Rng, at: FaultAt, kind: &CmdKind, thorough: bool) -> Vec<Fault> {
    let msgs = error_message_corpus();
    let for_core = *kind == CmdKind::GetUnsatAssumptions;
    let garb = garbage_corpus(for_core);
    let mut kinds: Vec<FaultKind> = vec![];
    let n_msgs = if thorough { 4 } else { 2 };
    for _ in 0..n_msgs {
        kinds.push(FaultKind::ErrReply {
            msg: rng.pick(&msgs).clone(),
            dies: rng.bool(),
        });
    }
    kinds.push(FaultKind::Unknown { reason: rng.chance(1, 3) });
    kinds.push(FaultKind::Empty { eof: false });
    kinds.push(FaultKind::Empty { eof: true });
    let n_cuts = if thorough { 6 } else { 2 };
    for _ in 0..n_cuts {
        kinds.push(FaultKind::Truncated {
            cut_permille: rng.below(1000) as u32,
            status: *rng.pick(&[0, 1, 134]),
        });
    }
    kinds.push(FaultKind::Exit {
        when: ExitWhen::BeforeRead,
        status: *rng.pick(&[0, 1, 134]),
        stderr: String::new(),
    });
    kinds.push(FaultKind::Exit {
        when: ExitWhen::AfterRead,
        status: *rng.pick(&[1, 134]),
        stderr: rng.pick(&["Segmentation fault\n", "", "terminate called after throwing an instance of 'std::bad_alloc'\n"]).to_string(),
    });
    kinds.push(FaultKind::ExitAfterReply {
        status: *rng.pick(&[0, 1, 134]),
        stderr: rng.pick(&["", "Killed\n"]).to_string(),
    });
    let n_garb = if thorough { 4 } else { 2 };
    for _ in 0..n_garb {
        let text = rng.pick(&garb).clone();
        let exit = if is_open_text(&text) || rng.chance(1, 3) {
            Some(*rng.pick(&[0, 1, 134]))
        } else {
            None
        };
        kinds.push(FaultKind::Garbage { text, exit });
    }
    kinds
        .into_iter()
        .map(|k| Fault { at: at.clone(), kind: k })
        .collect()
}

impl Property for C15 {
    fn id(&self) -> &'static str {
        "C15"
    }
    fn runs(&self, tier: Tier) -> usize {
        match tier {
            Tier::Quick => 4000,
            Tier::Thorough => 12_000,
        }
    }

    fn run(&self, run_seed: u64, tier: Tier, acc: &mut Acc) -> Option<(Violation, Value)> {
        let thorough = tier == Tier::Thorough;
        if Rng::stream(run_seed, "kind").chance(1, 4) {
            return run_api(run_seed, thorough, acc);
        }
        let mut rng = Rng::stream(run_seed, "workload");
        let mut crng = Rng::stream(run_seed, "config");
        let mut frng = Rng::stream(run_seed, "faults");
        let use_pdr = crng.chance(1, 3);
        let sys = loop {
            // PDR conversations stay at 5 state bits: the fault-free run must finish far below
            // the event budget (its run length grows with 2^(state bits) and has a heavy tail)
            let sys = gen_system(&mut rng, if use_pdr { 5 } else { 7 }, 3, use_pdr, |c| {
                if use_pdr {
                    c.structured = true;
                    c.no_init_16 = 0;
                }
            });
            let r = reach(&sys, 0);
            if r.fixpoint_depth <= 8 {
                break sys;
            }
        };
        let engine = if use_pdr {
            Engine::Pdr {
                disable_cores: crng.bool(),
            }
        } else {
            Engine::Bmc {
                individually: crng.bool(),
                check_constraints: false,
                k: crng.range(1, 4),
            }
        };
        let base = McScenario {
            sys,
            cfg: McCfg {
                profile: crng.usize_below(4),
                simplify: crng.bool(),
                engine,
            },
            sim_seed: crate::rng::mix(&[run_seed, 15]),
            canonical_policy: false,
            benign: true,
            faults: vec![],
            original_btor2: None,
        };
        // clean twin
        let clean = base.execute(false);
        clean.account(acc);
        acc.evaluations += 1;
        if !matches!(clean.outcome, Outcome::Ok(_)) {
            // e.g. the known const-array finding: nothing to enumerate on this conversation
            acc.count("skipped.clean_twin_not_ok", 1);
            return None;
        }
        // 5. benign perturbations alone never change the result
        {
            let mut quiet = base.clone();
            quiet.benign = false;
            let q = quiet.execute(false);
            acc.evaluations += 1;
            if q.outcome != clean.outcome {
                let v = Violation {
                    property: "C15".into(),
                    oracle: "C15/5".into(),
                    class: "BenignPerturbationChangedResult".into(),
                    site: "transport".into(),
                    detail: format!(
                        "short reads/writes, EINTR and exit-visibility lag changed the result from {} to {} [{}]",
                        q.outcome.class(),
                        clean.outcome.class(),
                        base.cfg.describe()
                    ),
                };
                if !filter_known(acc, &v) {
                    return Some((v, base.to_json()));
                }
            }
        }
        let n_resp = clean.n_response_points;
        let n_cmd = clean.n_command_points;
        acc.count("conversations", 1);
        acc.count(if use_pdr { "conversations.pdr" } else { "conversations.bmc" }, 1);
        acc.count("response_points", n_resp as u64);
        acc.distinct2.insert(conversation_shape(&clean.wire));
        // points: all (first 48) + a sample of the rest
        let mut points: Vec<usize> = (0..n_resp.min(48)).collect();
        for _ in 0..16 {
            if n_resp > 48 {
                points.push(48 + frng.usize_below(n_resp - 48));
            }
        }
        points.sort_unstable();
        points.dedup();
        acc.count("probe.conversation_fully_enumerated", (n_resp <= 48) as u64);
        let mut plans: Vec<Fault> = vec![];
        for r in &points {
            let kind = clean
                .wire
                .iter()
                .find(|w| w.resp_index == Some(*r))
                .map(|w| w.kind.clone())
                .unwrap_or(CmdKind::Other);
            plans.extend(faults_for_point(&mut frng, FaultAt::Response(*r), &kind, thorough));
        }
        // a sample of command points x exit, and spawn failures
        for _ in 0..4 {
            if n_cmd > 0 {
                let c = frng.usize_below(n_cmd);
                plans.push(Fault {
                    at: FaultAt::Command(c),
                    kind: FaultKind::Exit {
                        when: if frng.bool() { ExitWhen::BeforeRead } else { ExitWhen::AfterRead },
                        status: *frng.pick(&[0, 1, 134]),
                        stderr: String::new(),
                    },
                });
            }
        }
        plans.push(Fault { at: FaultAt::Spawn(0), kind: FaultKind::SpawnFail });
        if clean.n_procs > 1 {
            plans.push(Fault { at: FaultAt::Spawn(1), kind: FaultKind::SpawnFail });
        }
        if acc.samples.is_empty() {
            acc.samples.push(json!({
                "btor2": base.sys.to_btor2(),
                "config": base.cfg.describe(),
                "response_points": n_resp,
                "commands": n_cmd,
                "faulted_runs": plans.len(),
                "first_faults": plans.iter().take(4).map(|f| f.describe()).collect::<Vec<_>>(),
            }));
        }
        for f in plans {
            let mut scn = base.clone();
            scn.faults = vec![f.clone()];
            let obs = scn.execute(false);
            acc.evaluations += 1;
            acc.sim_steps += obs.tstats.events;
            acc.log_hash = acc.log_hash.rotate_left(9) ^ obs.log_hash;
            for fired in &obs.fired {
                acc.count(&format!("fault.{}", fired.fault.kind.class()), 1);
                if fired.effective {
                    acc.count("faults_effective", 1);
                }
            }
            if obs.fired.is_empty() {
                acc.count("faults_not_reached", 1);
            }
            acc.count(&format!("outcome.{}", obs.outcome.class()), 1);
            if let Some(v) = obs.err_variant {
                acc.count(&format!("error_variant.{v}"), 1);
            }
            acc.count("fault.benign.short_read", obs.tstats.short_reads);
            acc.count("fault.benign.short_write", obs.tstats.short_writes);
            acc.count("fault.benign.eintr_read", obs.tstats.eintr_read);
            acc.count("fault.benign.eintr_write", obs.tstats.eintr_write);
            acc.count("fault.benign.exit_visibility_lag", obs.tstats.exit_lag);
            acc.count("transport.epipe_seen", obs.tstats.epipe);
            acc.distinct.insert(crate::rng::mix(&[
                conversation_shape(&clean.wire),
                crate::rng::fnv1a(f.describe().as_bytes()),
            ]));
            if acc.stub_failure.is_none() {
                acc.stub_failure = obs.stub_failure.clone();
            }
            if let Some(v) = judge_hostile(&scn, &obs, &clean, acc) {
                return Some((v, scn.to_json()));
            }
        }
        None
    }

    fn replay(&self, scenario: &Value, acc: &mut Acc) -> Result<Option<Violation>, String> {
        if scenario["kind"].as_str() == Some("api") {
            return replay_api(scenario, acc);
        }
        let scn = McScenario::from_json(scenario)?;
        let mut base = scn.clone();
        base.faults.clear();
        let clean = base.execute(false);
        if scn.faults.is_empty() {
            // oracle 5 scenario
            let mut quiet = base.clone();
            quiet.benign = false;
            let q = quiet.execute(false);
            if q.outcome != clean.outcome {
                return Ok(Some(Violation {
                    property: "C15".into(),
                    oracle: "C15/5".into(),
                    class: "BenignPerturbationChangedResult".into(),
                    site: "transport".into(),
                    detail: format!("result changed from {} to {}", q.outcome.class(), clean.outcome.class()),
                }));
            }
            return Ok(None);
        }
        let obs = scn.execute(false);
        Ok(judge_hostile(&scn, &obs, &clean, acc))
    }

    fn shrink(&self, scenario: &Value) -> Vec<Value> {
        if scenario["kind"].as_str() == Some("api") {
            return shrink_api(scenario);
        }
        // shrinking the system changes the conversation and thereby the meaning of the fault
        // point; candidates keep the fault kind and retarget the point to the same command kind
        let Ok(scn) = McScenario::from_json(scenario) else {
            return vec![];
        };
        let mut out = vec![];
        let Some(fault) = scn.faults.first().cloned() else {
            return scn.shrink().iter().map(|s| s.to_json()).collect();
        };
        let mut base = scn.clone();
        base.faults.clear();
        let clean = base.execute(false);
        let pending = match &fault.at {
            FaultAt::Response(r) => clean.wire.iter().find(|w| w.resp_index == Some(*r)).map(|w| w.kind.clone()),
            _ => None,
        };
        for cand in scn.shrink() {
            let mut c = cand.clone();
            if let (FaultAt::Response(_), Some(kind)) = (&fault.at, &pending) {
                // retarget: first response point of the same command kind in the new conversation
                let mut b = cand.clone();
                b.faults.clear();
                let cl = b.execute(false);
                if !matches!(cl.outcome, Outcome::Ok(_)) {
                    continue;
                }
                let Some(r) = cl.wire.iter().find(|w| w.resp_index.is_some() && w.kind == *kind).and_then(|w| w.resp_index) else {
                    continue;
                };
                c.faults = vec![Fault { at: FaultAt::Response(r), kind: fault.kind.clone() }];
            }
            out.push(c.to_json());
        }
        // earlier point of the same kind in the same conversation
        if let (FaultAt::Response(r0), Some(kind)) = (&fault.at, &pending) {
            if let Some(r) = clean.wire.iter().find(|w| w.resp_index.is_some() && w.kind == *kind).and_then(|w| w.resp_index) {
                if r < *r0 {
                    let mut c = scn.clone();
                    c.faults = vec![Fault { at: FaultAt::Response(r), kind: fault.kind.clone() }];
                    out.insert(0, c.to_json());
                }
            }
        }
        out
    }

    fn meta(&self) -> EvidenceMeta {
        EvidenceMeta {
            level: "fault_enumeration",
            rule: "per sampled conversation (generated system x engine {BMC joint/individual, PDR with/without cores} x 4 solver profiles): a fault-free twin run records its response-bearing points (check-sat, check-sat-assuming, get-value, get-unsat-assumptions); then every point (all if <= 48, else the first 48 + 16 sampled) x every lossy fault kind {error reply (real z3/cvc5/bitwuzla/yices messages, synthetic lengths 0..4096, inner quotes/parentheses/newlines; solver survives or dies), unknown, blank line, silent EOF, truncated reply + exit, exit before/after reading the command, exit right after a correct reply, garbage (closed forms, or open forms followed by exit)} is replayed as a run with exactly that one fault, plus exits at sampled command points and spawn failures of start/restart. Benign perturbations (short read/write, EINTR, exit-visibility lag) are on in every run. exhaustive is per conversation (probe conversation_fully_enumerated), not for the property. Distinct by (conversation shape, fault).".into(),
            assumptions: vec![
                "a stalled-but-alive solver and a lying solver (well-formed wrong answers, doubled replies) are outside the fault model; garbage that a conforming client could take for a legal answer is filtered".into(),
                "hangs are detected as: read with no owed response from a live solver (deadlock), > 64 consecutive reads at EOF or > 1,200,000 (quick) / 6,000,000 (thorough) transport events (livelock)".into(),
            ],
            real_components: vec!["SmtLibSolverCtx (write_cmd, read_response, BrokenPipe branch, try_wait, restart, Drop)", "smt::parser (responses)", "mc::bmc", "mc::pdr", "btor2::parse_str"],
            stub_components: vec!["solver process (RefSolver + fault injector)", "pipes and process table (transport)"],
            distinct_measure: "distinct (conversation shape, fault point, fault kind+parameters) triples".into(),
            distinct2_measure: "distinct conversation shapes".into(),
        }
    }
}

// -------------------------------------------------------------------------------------------------
// the bare SolverContext API as a short random program (same fault enumeration, per-call oracle)
// -------------------------------------------------------------------------------------------------

use super::c12::{Call, apply_call_plain, call_from_json, call_to_json, gen_program};
use crate::harness::guarded_with_world;
use crate::refsolver::Policy;
use crate::transport::{TransportCfg, World};
use patronus::expr::{Context, ExprRef, TypeCheck};
use patronus::smt::{Logic, Solver, SolverContext};

#[derive(Clone, Debug, PartialEq, Eq)]
pub enum ApiOp {
    SetLogic,
    /// declare every symbol of the pool that is not declared in the current solver process
    DeclareAll,
    Assert(usize),
    CheckSat,
    CheckAssuming(Vec<usize>),
    GetValue(usize),
    GetCore,
    Push,
    Pop,
    Restart,
}

fn api_op_to_json(o: &ApiOp) -> Value {
    match o {
        ApiOp::SetLogic => json!(["set_logic"]),
        ApiOp::DeclareAll => json!(["declare_all"]),
        ApiOp::Assert(i) => json!(["assert", i]),
        ApiOp::CheckSat => json!(["check_sat"]),
        ApiOp::CheckAssuming(v) => json!(["check_sat_assuming", v]),
        ApiOp::GetValue(i) => json!(["get_value", i]),
        ApiOp::GetCore => json!(["get_unsat_assumptions"]),
        ApiOp::Push => json!(["push"]),
        ApiOp::Pop => json!(["pop"]),
        ApiOp::Restart => json!(["restart"]),
    }
}

fn api_op_from_json(v: &Value) -> Result<ApiOp, String> {
    Ok(match v[0].as_str().ok_or("api op")? {
        "set_logic" => ApiOp::SetLogic,
        "declare_all" => ApiOp::DeclareAll,
        "assert" => ApiOp::Assert(v[1].as_u64().ok_or("idx")? as usize),
        "check_sat" => ApiOp::CheckSat,
        "check_sat_assuming" => ApiOp::CheckAssuming(
            v[1].as_array().ok_or("list")?.iter().map(|x| x.as_u64().unwrap_or(0) as usize).collect(),
        ),
        "get_value" => ApiOp::GetValue(v[1].as_u64().ok_or("idx")? as usize),
        "get_unsat_assumptions" => ApiOp::GetCore,
        "push" => ApiOp::Push,
        "pop" => ApiOp::Pop,
        "restart" => ApiOp::Restart,
        o => return Err(format!("unknown api op {o}")),
    })
}

#[derive(Clone, Debug)]
pub struct ApiScenario {
    pub pool: Vec<Call>,
    pub ops: Vec<ApiOp>,
    pub profile: usize,
    pub sim_seed: u64,
    pub benign: bool,
    pub faults: Vec<Fault>,
}

impl ApiScenario {
    fn to_json(&self) -> Value {
        json!({"kind": "api",
            "workload": {"kind": "ops", "pool": self.pool.iter().map(call_to_json).collect::<Vec<_>>(),
                         "ops": self.ops.iter().map(api_op_to_json).collect::<Vec<_>>()},
            "config": {"profile": PROFILE_NAMES[self.profile]},
            "sim_seed": format!("{:#x}", self.sim_seed), "benign_transport": self.benign,
            "faults": self.faults.iter().map(fault_to_json).collect::<Vec<_>>()})
    }
    fn from_json(v: &Value) -> Result<Self, String> {
        let mut pool = vec![];
        for c in v["workload"]["pool"].as_array().ok_or("pool")? {
            pool.push(call_from_json(c)?);
        }
        let mut ops = vec![];
        for o in v["workload"]["ops"].as_array().ok_or("ops")? {
            ops.push(api_op_from_json(o)?);
        }
        let mut faults = vec![];
        if let Some(fs) = v["faults"].as_array() {
            for f in fs {
                faults.push(fault_from_json(f)?);
            }
        }
        let pname = v["config"]["profile"].as_str().ok_or("profile")?;
        Ok(ApiScenario {
            pool,
            ops,
            profile: PROFILE_NAMES.iter().position(|p| *p == pname).ok_or("profile")?,
            sim_seed: u64::from_str_radix(v["sim_seed"].as_str().ok_or("sim_seed")?.trim_start_matches("0x"), 16)
                .map_err(|e| e.to_string())?,
            benign: v["benign_transport"].as_bool().unwrap_or(true),
            faults,
        })
    }
}

/// result of one API call
#[derive(Clone, Debug, PartialEq, Eq)]
pub enum CallResult {
    Ok(String),
    Err(&'static str, Option<String>),
    Skipped,
}

pub struct ApiObservation {
    pub outcome: Outcome<()>,
    pub calls: Vec<CallResult>,
    /// for each API call: the response points it consumed (global indices)
    pub resp_of_call: Vec<Vec<usize>>,
    /// for each API call: the response points it consumed as (spawn ordinal, index within that process)
    pub local_resp_of_call: Vec<Vec<(usize, usize)>>,
    /// for each API call: is the most recently spawned solver process alive when the call returns
    pub alive_after: Vec<bool>,
    pub fired: Vec<FiredFault>,
    pub n_response_points: usize,
    pub events: u64,
    pub log_hash: u64,
    pub stub_failure: Option<String>,
    pub solver_rejected: bool,
}

fn exec_api(scn: &ApiScenario) -> ApiObservation {
    let tcfg = TransportCfg {
        benign: scn.benign,
        ..Default::default()
    };
    let policy = Policy::random(&mut Rng::stream(scn.sim_seed, "policy"));
    let world = World::new(scn.sim_seed, tcfg, policy, FaultPlan { faults: scn.faults.clone() });
    let mut calls: Vec<CallResult> = vec![];
    let mut resp_of_call: Vec<Vec<usize>> = vec![];
    let mut local_resp_of_call: Vec<Vec<(usize, usize)>> = vec![];
    let mut alive_after: Vec<bool> = vec![];
    let w2 = world.clone();
    let outcome = guarded_with_world(&world, || {
        let mut ctx = Context::default();
        let mut pool: Vec<Option<ExprRef>> = vec![];
        for c in &scn.pool {
            let r = apply_call_plain(&mut ctx, c, &pool);
            pool.push(r);
        }
        let symbols: Vec<ExprRef> = pool
            .iter()
            .flatten()
            .copied()
            .filter(|e| ctx[*e].is_symbol())
            .collect::<std::collections::BTreeSet<_>>()
            .into_iter()
            .collect();
        let bools: Vec<ExprRef> = pool
            .iter()
            .flatten()
            .copied()
            .filter(|e| e.get_bv_type(&ctx) == Some(1))
            .collect();
        let all: Vec<ExprRef> = pool.iter().flatten().copied().collect();
        let solver = solver_const(scn.profile);
        let mut smt = solver.start(None).map_err(|e| format!("start: {e:?}"))?;
        let record = |calls: &mut Vec<CallResult>, r: Result<String, patronus::smt::Error>| {
            calls.push(match r {
                Ok(s) => CallResult::Ok(s),
                Err(e) => {
                    let msg = if let patronus::smt::Error::FromSolver(_, m) = &e { Some(m.clone()) } else { None };
                    CallResult::Err(err_variant(&e), msg)
                }
            });
        };
        for op in &scn.ops {
            let before = w2.borrow().response_points();
            let local_before = w2.borrow().current_proc();
            match op {
                ApiOp::SetLogic => {
                    let l = if scn.profile == 2 { Logic::All } else { Logic::QfAufbv };
                    let r = smt.set_logic(l).map(|_| "ok".to_string());
                    record(&mut calls, r);
                }
                ApiOp::DeclareAll => {
                    let mut res = Ok("ok".to_string());
                    for s in &symbols {
                        if let Err(e) = smt.declare_const(&ctx, *s) {
                            res = Err(e);
                            break;
                        }
                    }
                    record(&mut calls, res);
                }
                ApiOp::Assert(i) => {
                    if bools.is_empty() {
                        calls.push(CallResult::Skipped);
                    } else {
                        let r = smt.assert(&ctx, bools[i % bools.len()]).map(|_| "ok".to_string());
                        record(&mut calls, r);
                    }
                }
                ApiOp::CheckSat => {
                    let r = smt.check_sat().map(|r| format!("{r:?}"));
                    record(&mut calls, r);
                }
                ApiOp::CheckAssuming(v) => {
                    if bools.is_empty() {
                        calls.push(CallResult::Skipped);
                    } else {
                        let props: Vec<ExprRef> = v.iter().map(|i| bools[i % bools.len()]).collect();
                        let r = smt.check_sat_assuming(&ctx, props).map(|r| format!("{r:?}"));
                        record(&mut calls, r);
                    }
                }
                ApiOp::GetValue(i) => {
                    if all.is_empty() {
                        calls.push(CallResult::Skipped);
                    } else {
                        let e = all[i % all.len()];
                        use patronus::expr::SerializableIrNode;
                        let r = smt.get_value(&mut ctx, e).map(|v| v.serialize_to_str(&ctx));
                        record(&mut calls, r);
                    }
                }
                ApiOp::GetCore => {
                    use patronus::expr::SerializableIrNode;
                    let r = smt.get_unsat_assumptions(&mut ctx).map(|v| {
                        let mut s: Vec<String> = v.iter().map(|e| e.serialize_to_str(&ctx)).collect();
                        s.sort();
                        s.join(",")
                    });
                    record(&mut calls, r);
                }
                ApiOp::Push => {
                    let r = smt.push().map(|_| "ok".to_string());
                    record(&mut calls, r);
                }
                ApiOp::Pop => {
                    let r = smt.pop().map(|_| "ok".to_string());
                    record(&mut calls, r);
                }
                ApiOp::Restart => {
                    let r = smt.restart().map(|_| "ok".to_string());
                    record(&mut calls, r);
                }
            }
            let after = w2.borrow().response_points();
            resp_of_call.push((before..after).collect());
            let local_after = w2.borrow().current_proc();
            local_resp_of_call.push(match (local_before, local_after) {
                (Some((s0, r0, _)), Some((s1, r1, _))) if s0 == s1 => (r0..r1).map(|r| (s1, r)).collect(),
                (_, Some((s1, r1, _))) => (0..r1).map(|r| (s1, r)).collect(),
                _ => vec![],
            });
            alive_after.push(local_after.map(|x| x.2).unwrap_or(false));
        }
        Ok(())
    });
    let w = world.borrow();
    let mut stub_failure = None;
    for p in &w.procs {
        if let Some(f) = &p.solver.stub_failure {
            stub_failure = Some(f.clone());
        }
    }
    ApiObservation {
        outcome,
        calls,
        resp_of_call,
        local_resp_of_call,
        alive_after,
        fired: w.fired.clone(),
        n_response_points: w.response_points(),
        events: w.stats.events,
        log_hash: w.log_hash,
        stub_failure,
        solver_rejected: w.wire.iter().any(|e| e.solver_error.is_some() && e.fault.is_none()),
    }
}

fn judge_api(scn: &ApiScenario, obs: &ApiObservation, clean: &ApiObservation, acc: &mut Acc) -> Option<Violation> {
    let first = scn.faults.first()?;
    let all_faults = scn.faults.iter().map(|f| f.describe()).collect::<Vec<_>>().join(" ; ");
    let mk = |fault: &Fault, oracle: &str, class: &str, site: String, detail: String| Violation {
        property: "C15".into(),
        oracle: oracle.into(),
        class: class.into(),
        site,
        detail: if scn.faults.len() == 1 {
            format!("{detail} [api program; fault: {}; profile={}]", fault.describe(), PROFILE_NAMES[scn.profile])
        } else {
            format!("{detail} [api program; fault sequence: {all_faults}; profile={}]", PROFILE_NAMES[scn.profile])
        },
    };
    let site_of = |f: &Fault| format!("api:{}", f.kind.class());
    let v = match &obs.outcome {
        Outcome::Panic { loc, msg } => Some(mk(first, "C15/1", "Panic", loc.clone(), format!("a solver-session call panicked at {loc}: {msg}"))),
        Outcome::Deadlock(d) => Some(mk(first, "C15/1", "Deadlock", site_of(first), format!("a solver-session call blocks forever: {d}"))),
        Outcome::Livelock(d) => Some(mk(first, "C15/1", "Livelock", site_of(first), format!("a solver-session call never returns: {d}"))),
        _ => judge_api_calls(scn, obs, clean, acc, &mk),
    };
    match v {
        Some(v) if filter_known(acc, &v) => None,
        other => other,
    }
}

/// The per-call oracle over a whole program with one fault or a sequence of faults. The program is
/// cut into sessions at its `restart` calls. A session that starts with a successfully spawned
/// process is independent of everything before it (the reference solver is seeded per spawn), so
/// within it: calls before the session's fault answer as in the fault-free run; the call that
/// consumed the faulty answer must not return Ok (and carries the solver's message); and once the
/// session's process is dead no call that needs an answer may return Ok.
fn judge_api_calls(
    scn: &ApiScenario,
    obs: &ApiObservation,
    clean: &ApiObservation,
    acc: &mut Acc,
    mk: &dyn Fn(&Fault, &str, &str, String, String) -> Violation,
) -> Option<Violation> {
    let n = scn.ops.len().min(obs.calls.len()).min(clean.calls.len());
    // session boundaries: [start, end) call indices; session s is created by the s-th spawn
    let mut bounds: Vec<(usize, usize)> = vec![];
    let mut start = 0;
    for k in 0..n {
        if scn.ops[k] == ApiOp::Restart {
            bounds.push((start, k));
            start = k;
        }
    }
    bounds.push((start, n));
    let site_of = |f: &Fault| format!("api:{}", f.kind.class());
    let mut earlier_fault = false;
    for (s, (a, b)) in bounds.iter().copied().enumerate() {
        let spawn_failed = scn.faults.iter().find(|f| f.at == FaultAt::Spawn(s));
        // the fault aimed at a response of this session and the call that consumes that response
        let mut target: Option<(&Fault, usize)> = None;
        for f in &scn.faults {
            let j = match &f.at {
                FaultAt::Response(r) => (a..b).find(|k| clean.resp_of_call[*k].contains(r)),
                FaultAt::ProcResponse(ps, r) if *ps == s => (a..b).find(|k| clean.local_resp_of_call[*k].contains(&(s, *r))),
                _ => None,
            };
            if let Some(j) = j {
                if target.map(|t| j < t.1).unwrap_or(true) {
                    target = Some((f, j));
                }
            }
        }
        let blame: &Fault = target.map(|t| t.0).or(spawn_failed).unwrap_or(&scn.faults[0]);
        if spawn_failed.is_some() {
            acc.count("probe.api_session_without_process", 1);
        }
        if earlier_fault && s > 0 && spawn_failed.is_none() {
            acc.count("probe.api_restart_after_fault", 1);
        }
        let mut healthy = spawn_failed.is_none();
        for k in a..b {
            let needs_answer = !clean.resp_of_call[k].is_empty();
            let is_target = target.map(|t| t.1 == k).unwrap_or(false);
            let before_target = target.map(|t| k < t.1).unwrap_or(true);
            if healthy && before_target {
                // untouched part of a session: must answer as the fault-free run does
                match (obs.calls.get(k), clean.calls.get(k)) {
                    (Some(CallResult::Ok(x)), Some(CallResult::Ok(y))) if x != y => {
                        return Some(mk(
                            blame,
                            if earlier_fault { "C15/2" } else { "C15/4" },
                            if earlier_fault { "StaleAnswerAfterRestart" } else { "ResultChanged" },
                            site_of(&scn.faults[0]),
                            format!(
                                "call #{k} ({:?}) of session {s} returned Ok({x}); the same call of the fault-free run returns Ok({y}) and no fault of this session precedes it",
                                scn.ops[k]
                            ),
                        ));
                    }
                    (got, want) if got != want => {
                        if !earlier_fault {
                            return Some(mk(
                                blame,
                                "C15/4",
                                "ResultChanged",
                                site_of(&scn.faults[0]),
                                format!("call #{k} ({:?}) changed from {want:?} to {got:?} although no fault precedes it", scn.ops[k]),
                            ));
                        }
                        // an error in a restarted session (e.g. a restart that could not complete):
                        // the rest of this session no longer corresponds to the fault-free run
                        acc.count("note.api_error_after_restart", 1);
                        if std::env::var("PATSIM_DEBUG_C15").is_ok() {
                            let _ = std::fs::OpenOptions::new().create(true).append(true).open("/tmp/c15_debug.log").map(|mut f| {
                                use std::io::Write;
                                let _ = writeln!(f, "call #{k} {:?} session {s}: got {got:?} want {want:?}\n  ops={:?}\n  faults={:?}\n  calls={:?}", scn.ops[k], scn.ops, scn.faults, obs.calls);
                            });
                        }
                        healthy = false;
                    }
                    _ => {}
                }
                continue;
            }
            if healthy && is_target {
                let (fault, j) = target.unwrap();
                let fired = obs.fired.iter().find(|ff| &ff.fault == fault);
                let effective = fired.map(|f| f.effective).unwrap_or(false);
                if scn.faults.len() > 1 && fired.is_some() {
                    acc.count("probe.api_later_fault_of_sequence_fired", (fault != &scn.faults[0]) as u64);
                }
                if effective {
                    match obs.calls.get(j) {
                        Some(CallResult::Ok(r)) => {
                            return Some(mk(
                                fault,
                                "C15/2",
                                "AnswerDespiteFault",
                                format!("api:{:?}", scn.ops[j]).split('(').next().unwrap_or("api").to_string(),
                                format!("call #{j} ({:?}) returned Ok({r}) although the solver's answer was faulty", scn.ops[j]),
                            ));
                        }
                        Some(CallResult::Err(variant, carried)) => {
                            if let FaultKind::ErrReply { msg, .. } = &fault.kind {
                                let want = norm_ws(msg);
                                let want_escaped = norm_ws(&msg.replace('"', "\"\""));
                                let ok = carried
                                    .as_ref()
                                    .map(|c| {
                                        let got = norm_ws(c);
                                        got.contains(&want) || got.contains(&want_escaped)
                                    })
                                    .unwrap_or(false);
                                if !ok {
                                    return Some(mk(
                                        fault,
                                        "C15/3",
                                        if carried.is_some() { "MangledMessage" } else { "MessageLost" },
                                        format!("api-error-reply:{variant}"),
                                        format!("solver printed (error \"{msg}\") but call #{j} returned {variant} carrying {carried:?}"),
                                    ));
                                }
                            }
                        }
                        _ => {}
                    }
                }
                earlier_fault = true;
                healthy = false;
                continue;
            }
            // after the session's fault (or in a session whose process never started): the only
            // obligation is not to invent answers once there is no process to give them
            let dead_before = if k == a { spawn_failed.is_some() } else { !obs.alive_after[k - 1] };
            if dead_before && needs_answer && scn.ops[k] != ApiOp::Restart {
                acc.count("probe.api_call_on_dead_solver", 1);
                if let Some(CallResult::Ok(r)) = obs.calls.get(k) {
                    return Some(mk(
                        blame,
                        "C15/2",
                        "AnswerFromDeadSolver",
                        site_of(blame),
                        format!(
                            "call #{k} ({:?}) returned Ok({r}) although the solver process of session {s} was already dead when the call began",
                            scn.ops[k]
                        ),
                    ));
                }
            }
        }
        if spawn_failed.is_some() || target.is_some() {
            earlier_fault = true;
        }
    }
    None
}

fn gen_api_scenario(run_seed: u64) -> ApiScenario {
    let mut rng = Rng::stream(run_seed, "api");
    // a pool of narrow expressions (the stub solver handles up to 128 bits)
    let pool: Vec<Call> = gen_program(&mut rng, 40, false)
        .into_iter()
        .filter(|c| match c {
            Call::Lit(b, _) => b.len() <= 64,
            Call::Sym(_, super::c12::Ty::Bv(w), _) => *w <= 64,
            Call::Sym(_, super::c12::Ty::Arr(i, d), _) => *i <= 4 && *d <= 32,
            Call::Str(_) | Call::Burst(_) => false,
            _ => true,
        })
        .collect();
    // filtering may break references: regenerate the typed program from scratch instead
    let pool = if pool.len() < 5 { vec![Call::Sym("a".into(), super::c12::Ty::Bv(8), 0), Call::True] } else { retype(pool) };
    let mut ops = vec![ApiOp::SetLogic, ApiOp::DeclareAll];
    let n = rng.range(4, 14);
    let mut depth = 0;
    for _ in 0..n {
        ops.push(match rng.below(12) {
            0 | 1 => ApiOp::Assert(rng.usize_below(64)),
            2 | 3 => ApiOp::CheckSat,
            4 | 5 => ApiOp::CheckAssuming((0..rng.below(4)).map(|_| rng.usize_below(64)).collect()),
            6 | 7 => ApiOp::GetValue(rng.usize_below(64)),
            8 => ApiOp::GetCore,
            9 => {
                depth += 1;
                ApiOp::Push
            }
            10 => {
                if depth > 0 {
                    depth -= 1;
                }
                ApiOp::Pop
            }
            _ => ApiOp::Restart,
        });
        if ops.last() == Some(&ApiOp::Restart) {
            ops.push(ApiOp::SetLogic);
            ops.push(ApiOp::DeclareAll);
            depth = 0;
        }
    }
    ApiScenario {
        pool,
        ops,
        profile: *rng.pick(&[0usize, 2, 3]),
        sim_seed: crate::rng::mix(&[run_seed, 151]),
        benign: true,
        faults: vec![],
    }
}

/// keeps only calls whose operands are still present (indices are remapped)
fn retype(calls: Vec<Call>) -> Vec<Call> {
    // simplest robust choice: keep leaf calls only, then add a few operators over them
    let mut names: std::collections::BTreeSet<String> = Default::default();
    let mut out: Vec<Call> = calls
        .into_iter()
        .filter(|c| matches!(c, Call::Sym(..) | Call::Lit(..) | Call::True | Call::False))
        // one declaration per name: a second symbol of the same name and another sort would be a
        // redeclaration, which is the program's fault, not the solver's
        .filter(|c| match c {
            Call::Sym(n, _, _) => names.insert(n.clone()),
            _ => true,
        })
        .collect();
    let n = out.len();
    // equalities and conjunctions over leaves of equal type are added by index pairs that type-check
    let ty_of = |c: &Call| -> Option<u32> {
        match c {
            Call::Sym(_, super::c12::Ty::Bv(w), _) => Some(*w),
            Call::Lit(b, _) => Some(b.len() as u32),
            Call::True | Call::False => Some(1),
            _ => None,
        }
    };
    let mut extra = vec![];
    for i in 0..n {
        for j in (i + 1)..n {
            if let (Some(a), Some(b)) = (ty_of(&out[i]), ty_of(&out[j])) {
                if a == b && extra.len() < 12 {
                    extra.push(Call::Bin(if (i + j) % 2 == 0 { "equal" } else { "greater" }, i, j));
                }
            }
        }
    }
    out.extend(extra);
    out
}

pub fn run_api(run_seed: u64, thorough: bool, acc: &mut Acc) -> Option<(Violation, Value)> {
    let base = gen_api_scenario(run_seed);
    let clean = exec_api(&base);
    acc.evaluations += 1;
    acc.sim_steps += clean.events;
    acc.log_hash = acc.log_hash.rotate_left(9) ^ clean.log_hash;
    if acc.stub_failure.is_none() {
        acc.stub_failure = clean.stub_failure.clone();
    }
    if !matches!(clean.outcome, Outcome::Ok(())) {
        // the clean program itself must not crash or hang
        let v = Violation {
            property: "C15".into(),
            oracle: "C15/1".into(),
            class: clean.outcome.class().into(),
            site: "api-clean".into(),
            detail: format!("fault-free solver-session program: {}", clean.outcome.describe()),
        };
        if !filter_known(acc, &v) {
            return Some((v, base.to_json()));
        }
        return None;
    }
    if clean.solver_rejected {
        // a program that the solver rejects on its own (e.g. get-value without a model) makes the
        // conversation ambiguous: the error text of a response-free command is read by the next
        // response-bearing call. Not a fault scenario.
        acc.count("skipped.api_program_rejected_by_solver", 1);
        return None;
    }
    acc.count("conversations.api_programs", 1);
    acc.count("response_points", clean.n_response_points as u64);
    acc.count("probe.api_program_with_restart", base.ops.contains(&ApiOp::Restart) as u64);
    let mut frng = Rng::stream(run_seed, "faults");
    for r in 0..clean.n_response_points.min(24) {
        for f in faults_for_point(&mut frng, FaultAt::Response(r), &CmdKind::CheckSat, thorough) {
            // `()` is a legal reply to get-unsat-assumptions: never use it as garbage here
            if matches!(&f.kind, FaultKind::Garbage { text, .. } if text.trim() == "()") {
                continue;
            }
            let mut scn = base.clone();
            scn.faults = vec![f.clone()];
            let obs = exec_api(&scn);
            acc.evaluations += 1;
            acc.sim_steps += obs.events;
            acc.log_hash = acc.log_hash.rotate_left(9) ^ obs.log_hash;
            for fired in &obs.fired {
                acc.count(&format!("fault.{}", fired.fault.kind.class()), 1);
            }
            acc.distinct.insert(crate::rng::mix(&[
                crate::rng::fnv1a(format!("{:?}", base.ops).as_bytes()),
                crate::rng::fnv1a(f.describe().as_bytes()),
            ]));
            if let Some(v) = judge_api(&scn, &obs, &clean, acc) {
                return Some((v, scn.to_json()));
            }
        }
    }
    // fault sequences: crash, restart, crash again. Every session of the program (the part between
    // two `restart` calls) gets no fault, a spawn failure, or one fault at one of its own response
    // points, addressed relative to the session so that earlier faults do not move it.
    let n_sessions = base.ops.iter().filter(|o| **o == ApiOp::Restart).count() + 1;
    if n_sessions >= 2 {
        let n_seq = if thorough { 32 } else { 10 };
        for _ in 0..n_seq {
            let mut faults: Vec<Fault> = vec![];
            for sess in 0..n_sessions {
                let locals: Vec<usize> = clean
                    .local_resp_of_call
                    .iter()
                    .flatten()
                    .filter(|(ps, _)| *ps == sess)
                    .map(|x| x.1)
                    .collect();
                match frng.below(6) {
                    0 => {}
                    1 if sess > 0 => faults.push(Fault { at: FaultAt::Spawn(sess), kind: FaultKind::SpawnFail }),
                    _ => {
                        if !locals.is_empty() {
                            let r = *frng.pick(&locals);
                            let cands = faults_for_point(&mut frng, FaultAt::ProcResponse(sess, r), &CmdKind::CheckSat, false);
                            let f = frng.pick(&cands).clone();
                            if !matches!(&f.kind, FaultKind::Garbage { text, .. } if text.trim() == "()") {
                                faults.push(f);
                            }
                        }
                    }
                }
            }
            if faults.len() < 2 {
                continue;
            }
            let mut scn = base.clone();
            scn.faults = faults;
            let obs = exec_api(&scn);
            acc.evaluations += 1;
            acc.sim_steps += obs.events;
            acc.log_hash = acc.log_hash.rotate_left(9) ^ obs.log_hash;
            acc.count("fault_sequences", 1);
            acc.count(&format!("fault_sequences.fired_{}", obs.fired.len().min(4)), 1);
            for fired in &obs.fired {
                acc.count(&format!("fault.{}", fired.fault.kind.class()), 1);
            }
            acc.distinct.insert(crate::rng::mix(&[
                crate::rng::fnv1a(format!("{:?}", base.ops).as_bytes()),
                crate::rng::fnv1a(scn.faults.iter().map(|f| f.describe()).collect::<Vec<_>>().join(";").as_bytes()),
            ]));
            if let Some(v) = judge_api(&scn, &obs, &clean, acc) {
                return Some((v, scn.to_json()));
            }
        }
    }
    None
}

pub fn replay_api(scenario: &Value, acc: &mut Acc) -> Result<Option<Violation>, String> {
    let scn = ApiScenario::from_json(scenario)?;
    let mut base = scn.clone();
    base.faults.clear();
    let clean = exec_api(&base);
    if scn.faults.is_empty() {
        return Ok(if matches!(clean.outcome, Outcome::Ok(())) {
            None
        } else {
            Some(Violation {
                property: "C15".into(),
                oracle: "C15/1".into(),
                class: clean.outcome.class().into(),
                site: "api-clean".into(),
                detail: clean.outcome.describe(),
            })
        });
    }
    let obs = exec_api(&scn);
    Ok(judge_api(&scn, &obs, &clean, acc))
}

pub fn shrink_api(scenario: &Value) -> Vec<Value> {
    let Ok(scn) = ApiScenario::from_json(scenario) else {
        return vec![];
    };
    let mut out = vec![];
    if scn.benign {
        let mut s = scn.clone();
        s.benign = false;
        out.push(s);
    }
    // drop trailing calls (fault points are global indices into the conversation: dropping calls
    // after the faulted one keeps their meaning)
    for keep in (3..scn.ops.len()).rev() {
        let mut s = scn.clone();
        s.ops.truncate(keep);
        out.push(s);
    }
    out.iter().map(|s| s.to_json()).collect()
}
