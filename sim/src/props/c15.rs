//! C15 — solver faults surface as errors, never as verdicts or hangs.
//! For every sampled conversation: every response-bearing point x every lossy fault kind.

use super::mc_common::*;
use crate::faults::*;
use crate::harness::Outcome;
use crate::mcrun::*;
use crate::refsem::reach::reach;
use crate::refsolver::CmdKind;
use crate::rng::Rng;
use crate::runner::*;
use serde_json::{Value, json};

pub struct C15;

fn norm_ws(s: &str) -> String {
    s.split_whitespace().collect::<Vec<_>>().join(" ")
}

/// the oracle for one hostile run; `clean` is the fault-free twin (same seeds)
pub fn judge_hostile(scn: &McScenario, obs: &McObservation, clean: &McObservation, acc: &mut Acc) -> Option<Violation> {
    let fault = scn.faults.first()?;
    let fired = obs.fired.first();
    let pending_kind = match &fault.at {
        FaultAt::Response(r) => clean
            .wire
            .iter()
            .find(|w| w.resp_index == Some(*r))
            .map(|w| w.kind.short())
            .unwrap_or("?"),
        FaultAt::Command(c) => clean.wire.get(*c).map(|w| w.kind.short()).unwrap_or("?"),
        FaultAt::Spawn(_) => "spawn",
    };
    let site_base = format!("{}@{}", fault.kind.class(), pending_kind);
    let mk = |oracle: &str, class: &str, site: String, detail: String| Violation {
        property: "C15".into(),
        oracle: oracle.into(),
        class: class.into(),
        site,
        detail: format!("{detail} [fault: {}; {}]", fault.describe(), scn.cfg.describe()),
    };
    // 1. never panic / deadlock / livelock
    let v = match &obs.outcome {
        Outcome::Panic { loc, msg } => Some(mk(
            "C15/1",
            "Panic",
            loc.clone(),
            format!("call panicked at {loc}: {msg}"),
        )),
        Outcome::Deadlock(d) => Some(mk("C15/1", "Deadlock", site_base.clone(), format!("call blocks forever: {d}"))),
        Outcome::Livelock(d) => Some(mk("C15/1", "Livelock", site_base.clone(), format!("call never returns: {d}"))),
        Outcome::FuelExhausted => None,
        Outcome::Ok(verdict) => {
            match fired {
                Some(f) if f.effective => {
                    // 2. a verdict must not rest on an answer that was not received intact
                    match verdict {
                        Verdict::Unknown => None,
                        v => Some(mk(
                            "C15/2",
                            "VerdictDespiteFault",
                            site_base.clone(),
                            format!("call returned the verdict {} although a solver answer it consumed was faulty", v.short()),
                        )),
                    }
                }
                _ => {
                    // 4. fault not effective: same result as the clean twin
                    if Outcome::Ok(verdict.clone()) != clean.outcome {
                        Some(mk(
                            "C15/4",
                            "ResultChanged",
                            site_base.clone(),
                            format!(
                                "a fault that altered no consumed answer changed the result from {} to {}",
                                clean.outcome.class(),
                                verdict.short()
                            ),
                        ))
                    } else {
                        None
                    }
                }
            }
        }
        Outcome::Err(e) => {
            // 3. an error message printed by the solver is carried unmangled
            match (&fault.kind, fired) {
                (FaultKind::ErrReply { msg, .. }, Some(_)) => {
                    let carried = obs.from_solver_msg.clone();
                    match carried {
                        Some(c) => {
                            let want = norm_ws(msg);
                            let want_escaped = norm_ws(&msg.replace('"', "\"\""));
                            let got = norm_ws(&c);
                            if got.contains(&want) || got.contains(&want_escaped) {
                                None
                            } else {
                                Some(mk(
                                    "C15/3",
                                    "MangledMessage",
                                    "error-reply".into(),
                                    format!("solver printed (error \"{msg}\") but the returned error carries `{c}`"),
                                ))
                            }
                        }
                        None => Some(mk(
                            "C15/3",
                            "MessageLost",
                            format!("error-reply:{}", obs.err_variant.unwrap_or("?")),
                            format!("solver printed (error \"{msg}\") but the call returned a {} error without it: {e}", obs.err_variant.unwrap_or("?")),
                        )),
                    }
                }
                _ => None,
            }
        }
    };
    match v {
        Some(v) if filter_known(acc, &v) => None,
        other => other,
    }
}

fn faults_for_point(rng: &mut Rng, at: FaultAt, kind: &CmdKind, thorough: bool) -> Vec<Fault> {
    let msgs = error_message_corpus();
    let for_core = *kind == CmdKind::GetUnsatAssumptions;
    let garb = garbage_corpus(for_core);
    let mut kinds: Vec<FaultKind> = vec![];
    let n_msgs = if thorough { 4 } else { 2 };
    for _ in 0..n_msgs {
        kinds.push(FaultKind::ErrReply {
            msg: rng.pick(&msgs).clone(),
            dies: rng.bool(),
        });
    }
    kinds.push(FaultKind::Unknown { reason: rng.chance(1, 3) });
    kinds.push(FaultKind::Empty { eof: false });
    kinds.push(FaultKind::Empty { eof: true });
    let n_cuts = if thorough { 6 } else { 2 };
    for _ in 0..n_cuts {
        kinds.push(FaultKind::Truncated {
            cut_permille: rng.below(1000) as u32,
            status: *rng.pick(&[0, 1, 134]),
        });
    }
    kinds.push(FaultKind::Exit {
        when: ExitWhen::BeforeRead,
        status: *rng.pick(&[0, 1, 134]),
        stderr: String::new(),
    });
    kinds.push(FaultKind::Exit {
        when: ExitWhen::AfterRead,
        status: *rng.pick(&[1, 134]),
        stderr: rng.pick(&["Segmentation fault\n", "", "terminate called after throwing an instance of 'std::bad_alloc'\n"]).to_string(),
    });
    kinds.push(FaultKind::ExitAfterReply {
        status: *rng.pick(&[0, 1, 134]),
        stderr: rng.pick(&["", "Killed\n"]).to_string(),
    });
    let n_garb = if thorough { 4 } else { 2 };
    for _ in 0..n_garb {
        let text = rng.pick(&garb).clone();
        let exit = if is_open_text(&text) || rng.chance(1, 3) {
            Some(*rng.pick(&[0, 1, 134]))
        } else {
            None
        };
        kinds.push(FaultKind::Garbage { text, exit });
    }
    kinds
        .into_iter()
        .map(|k| Fault { at: at.clone(), kind: k })
        .collect()
}

impl Property for C15 {
    fn id(&self) -> &'static str {
        "C15"
    }
    fn runs(&self, tier: Tier) -> usize {
        match tier {
            Tier::Quick => 1500,
            Tier::Thorough => 6000,
        }
    }

    fn run(&self, run_seed: u64, tier: Tier, acc: &mut Acc) -> Option<(Violation, Value)> {
        let thorough = tier == Tier::Thorough;
        let mut rng = Rng::stream(run_seed, "workload");
        let mut crng = Rng::stream(run_seed, "config");
        let mut frng = Rng::stream(run_seed, "faults");
        let use_pdr = crng.chance(1, 3);
        let sys = loop {
            let sys = gen_system(&mut rng, 7, 3, use_pdr, |c| {
                if use_pdr {
                    c.structured = true;
                    c.no_init_16 = 0;
                }
            });
            let r = reach(&sys, 0);
            if r.fixpoint_depth <= 8 {
                break sys;
            }
        };
        let engine = if use_pdr {
            Engine::Pdr {
                disable_cores: crng.bool(),
            }
        } else {
            Engine::Bmc {
                individually: crng.bool(),
                check_constraints: false,
                k: crng.range(1, 4),
            }
        };
        let base = McScenario {
            sys,
            cfg: McCfg {
                profile: crng.usize_below(4),
                simplify: crng.bool(),
                engine,
            },
            sim_seed: crate::rng::mix(&[run_seed, 15]),
            canonical_policy: false,
            benign: true,
            faults: vec![],
        };
        // clean twin
        let clean = base.execute(false);
        clean.account(acc);
        acc.evaluations += 1;
        if !matches!(clean.outcome, Outcome::Ok(_)) {
            // e.g. the known const-array finding: nothing to enumerate on this conversation
            acc.count("skipped.clean_twin_not_ok", 1);
            return None;
        }
        // 5. benign perturbations alone never change the result
        {
            let mut quiet = base.clone();
            quiet.benign = false;
            let q = quiet.execute(false);
            acc.evaluations += 1;
            if q.outcome != clean.outcome {
                let v = Violation {
                    property: "C15".into(),
                    oracle: "C15/5".into(),
                    class: "BenignPerturbationChangedResult".into(),
                    site: "transport".into(),
                    detail: format!(
                        "short reads/writes, EINTR and exit-visibility lag changed the result from {} to {} [{}]",
                        q.outcome.class(),
                        clean.outcome.class(),
                        base.cfg.describe()
                    ),
                };
                if !filter_known(acc, &v) {
                    return Some((v, base.to_json()));
                }
            }
        }
        let n_resp = clean.n_response_points;
        let n_cmd = clean.n_command_points;
        acc.count("conversations", 1);
        acc.count(if use_pdr { "conversations.pdr" } else { "conversations.bmc" }, 1);
        acc.count("response_points", n_resp as u64);
        acc.distinct2.insert(conversation_shape(&clean.wire));
        // points: all (first 48) + a sample of the rest
        let mut points: Vec<usize> = (0..n_resp.min(48)).collect();
        for _ in 0..16 {
            if n_resp > 48 {
                points.push(48 + frng.usize_below(n_resp - 48));
            }
        }
        points.sort_unstable();
        points.dedup();
        acc.count("probe.conversation_fully_enumerated", (n_resp <= 48) as u64);
        let mut plans: Vec<Fault> = vec![];
        for r in &points {
            let kind = clean
                .wire
                .iter()
                .find(|w| w.resp_index == Some(*r))
                .map(|w| w.kind.clone())
                .unwrap_or(CmdKind::Other);
            plans.extend(faults_for_point(&mut frng, FaultAt::Response(*r), &kind, thorough));
        }
        // a sample of command points x exit, and spawn failures
        for _ in 0..4 {
            if n_cmd > 0 {
                let c = frng.usize_below(n_cmd);
                plans.push(Fault {
                    at: FaultAt::Command(c),
                    kind: FaultKind::Exit {
                        when: if frng.bool() { ExitWhen::BeforeRead } else { ExitWhen::AfterRead },
                        status: *frng.pick(&[0, 1, 134]),
                        stderr: String::new(),
                    },
                });
            }
        }
        plans.push(Fault { at: FaultAt::Spawn(0), kind: FaultKind::SpawnFail });
        if clean.n_procs > 1 {
            plans.push(Fault { at: FaultAt::Spawn(1), kind: FaultKind::SpawnFail });
        }
        if acc.samples.is_empty() {
            acc.samples.push(json!({
                "btor2": base.sys.to_btor2(),
                "config": base.cfg.describe(),
                "response_points": n_resp,
                "commands": n_cmd,
                "faulted_runs": plans.len(),
                "first_faults": plans.iter().take(4).map(|f| f.describe()).collect::<Vec<_>>(),
            }));
        }
        for f in plans {
            let mut scn = base.clone();
            scn.faults = vec![f.clone()];
            let obs = scn.execute(false);
            acc.evaluations += 1;
            acc.sim_steps += obs.tstats.events;
            acc.log_hash = acc.log_hash.rotate_left(9) ^ obs.log_hash;
            for fired in &obs.fired {
                acc.count(&format!("fault.{}", fired.fault.kind.class()), 1);
                if fired.effective {
                    acc.count("faults_effective", 1);
                }
            }
            if obs.fired.is_empty() {
                acc.count("faults_not_reached", 1);
            }
            acc.count(&format!("outcome.{}", obs.outcome.class()), 1);
            if let Some(v) = obs.err_variant {
                acc.count(&format!("error_variant.{v}"), 1);
            }
            acc.count("fault.benign.short_read", obs.tstats.short_reads);
            acc.count("fault.benign.short_write", obs.tstats.short_writes);
            acc.count("fault.benign.eintr_read", obs.tstats.eintr_read);
            acc.count("fault.benign.eintr_write", obs.tstats.eintr_write);
            acc.count("fault.benign.exit_visibility_lag", obs.tstats.exit_lag);
            acc.count("transport.epipe_seen", obs.tstats.epipe);
            acc.distinct.insert(crate::rng::mix(&[
                conversation_shape(&clean.wire),
                crate::rng::fnv1a(f.describe().as_bytes()),
            ]));
            if acc.stub_failure.is_none() {
                acc.stub_failure = obs.stub_failure.clone();
            }
            if let Some(v) = judge_hostile(&scn, &obs, &clean, acc) {
                return Some((v, scn.to_json()));
            }
        }
        None
    }

    fn replay(&self, scenario: &Value, acc: &mut Acc) -> Result<Option<Violation>, String> {
        let scn = McScenario::from_json(scenario)?;
        let mut base = scn.clone();
        base.faults.clear();
        let clean = base.execute(false);
        if scn.faults.is_empty() {
            // oracle 5 scenario
            let mut quiet = base.clone();
            quiet.benign = false;
            let q = quiet.execute(false);
            if q.outcome != clean.outcome {
                return Ok(Some(Violation {
                    property: "C15".into(),
                    oracle: "C15/5".into(),
                    class: "BenignPerturbationChangedResult".into(),
                    site: "transport".into(),
                    detail: format!("result changed from {} to {}", q.outcome.class(), clean.outcome.class()),
                }));
            }
            return Ok(None);
        }
        let obs = scn.execute(false);
        Ok(judge_hostile(&scn, &obs, &clean, acc))
    }

    fn shrink(&self, scenario: &Value) -> Vec<Value> {
        // shrinking the system changes the conversation and thereby the meaning of the fault
        // point; candidates keep the fault kind and retarget the point to the same command kind
        let Ok(scn) = McScenario::from_json(scenario) else {
            return vec![];
        };
        let mut out = vec![];
        let Some(fault) = scn.faults.first().cloned() else {
            return scn.shrink().iter().map(|s| s.to_json()).collect();
        };
        let mut base = scn.clone();
        base.faults.clear();
        let clean = base.execute(false);
        let pending = match &fault.at {
            FaultAt::Response(r) => clean.wire.iter().find(|w| w.resp_index == Some(*r)).map(|w| w.kind.clone()),
            _ => None,
        };
        for cand in scn.shrink() {
            let mut c = cand.clone();
            if let (FaultAt::Response(_), Some(kind)) = (&fault.at, &pending) {
                // retarget: first response point of the same command kind in the new conversation
                let mut b = cand.clone();
                b.faults.clear();
                let cl = b.execute(false);
                if !matches!(cl.outcome, Outcome::Ok(_)) {
                    continue;
                }
                let Some(r) = cl.wire.iter().find(|w| w.resp_index.is_some() && w.kind == *kind).and_then(|w| w.resp_index) else {
                    continue;
                };
                c.faults = vec![Fault { at: FaultAt::Response(r), kind: fault.kind.clone() }];
            }
            out.push(c.to_json());
        }
        // earlier point of the same kind in the same conversation
        if let (FaultAt::Response(r0), Some(kind)) = (&fault.at, &pending) {
            if let Some(r) = clean.wire.iter().find(|w| w.resp_index.is_some() && w.kind == *kind).and_then(|w| w.resp_index) {
                if r < *r0 {
                    let mut c = scn.clone();
                    c.faults = vec![Fault { at: FaultAt::Response(r), kind: fault.kind.clone() }];
                    out.insert(0, c.to_json());
                }
            }
        }
        out
    }

    fn meta(&self) -> EvidenceMeta {
        EvidenceMeta {
            level: "fault_enumeration",
            rule: "per sampled conversation (generated system x engine {BMC joint/individual, PDR with/without cores} x 4 solver profiles): a fault-free twin run records its response-bearing points (check-sat, check-sat-assuming, get-value, get-unsat-assumptions); then every point (all if <= 48, else the first 48 + 16 sampled) x every lossy fault kind {error reply (real z3/cvc5/bitwuzla/yices messages, synthetic lengths 0..4096, inner quotes/parentheses/newlines; solver survives or dies), unknown, blank line, silent EOF, truncated reply + exit, exit before/after reading the command, exit right after a correct reply, garbage (closed forms, or open forms followed by exit)} is replayed as a run with exactly that one fault, plus exits at sampled command points and spawn failures of start/restart. Benign perturbations (short read/write, EINTR, exit-visibility lag) are on in every run. exhaustive is per conversation (probe conversation_fully_enumerated), not for the property. Distinct by (conversation shape, fault).".into(),
            assumptions: vec![
                "a stalled-but-alive solver and a lying solver (well-formed wrong answers, doubled replies) are outside the fault model; garbage that a conforming client could take for a legal answer is filtered".into(),
                "hangs are detected as: read with no owed response from a live solver (deadlock), > 64 consecutive reads at EOF or > 3,000,000 transport events (livelock)".into(),
            ],
            real_components: vec!["SmtLibSolverCtx (write_cmd, read_response, BrokenPipe branch, try_wait, restart, Drop)", "smt::parser (responses)", "mc::bmc", "mc::pdr", "btor2::parse_str"],
            stub_components: vec!["solver process (RefSolver + fault injector)", "pipes and process table (transport)"],
            distinct_measure: "distinct (conversation shape, fault point, fault kind+parameters) triples".into(),
            distinct2_measure: "distinct conversation shapes".into(),
        }
    }
}
