//! C14 — the SMT-LIB reader inverts the writer and reads solver model values correctly.
//! (a) wire logs of simulated conversations are read back by `smt::read_command` through a
//!     chunking reader and compared with the reference solver's independent parse;
//! (b) model values of all sorts in all print forms through `SolverContext::get_value`;
//! (c) truncated / unbalanced variants must yield an error, never a value, crash or hang.

use super::mc_common::*;
use crate::harness::*;
use crate::irx;
use crate::mcrun::*;
use crate::refsolver::sexp::{Sexp, parse_one};
use crate::refsolver::term::Sort;
use crate::refsolver::{CmdKind, PROFILES, Policy, RefSolver, classify};
use crate::rng::Rng;
use crate::runner::*;
use crate::transport::*;
use crate::val::*;
use baa::{ArrayOps, BitVecOps};
use patronus::expr::Context;
use patronus::smt::{SmtCommand, Solver, SolverContext};
use rustc_hash::FxHashMap;
use serde_json::{Value, json};
use std::io::Read;


// -------------------------------------------------------------------------------------------------
// (a') incremental session scripts written by patronus' own command writer
// -------------------------------------------------------------------------------------------------

#[derive(Clone, Copy, PartialEq, Eq, Debug)]
enum STy {
    Bv(u32),
    Arr(u32, u32),
}

/// A random incremental solver session (declare / define / assert / push / pop / check / get-value)
/// built with patronus' `Context` and written with `serialize_cmd`. Scopes are used the way an
/// incremental client uses them: after `(pop 1)` a name of the closed scope is declared again,
/// usually with a different sort, and used afterwards.
fn gen_session_script(rng: &mut Rng) -> Vec<String> {
    use patronus::expr::ExprRef;
    let mut ctx = Context::default();
    let names = ["x", "y", "v", "mem", "t0", "a b", "q\"r", "#b01", "valid", "x1"];
    let tys = [
        STy::Bv(1),
        STy::Bv(3),
        STy::Bv(5),
        STy::Bv(8),
        STy::Bv(16),
        STy::Bv(33),
        STy::Bv(64),
        STy::Bv(65),
        STy::Arr(2, 1),
        STy::Arr(3, 8),
        STy::Arr(1, 5),
    ];
    // scopes of visible symbols: (name, type, symbol)
    let mut scopes: Vec<Vec<(String, STy, ExprRef)>> = vec![vec![]];
    // names that were visible once and are not now, with the type they had
    let mut retired: Vec<(String, STy)> = vec![];
    let mut cmds: Vec<SmtCommand> = vec![SmtCommand::SetLogic(patronus::smt::Logic::All)];
    let mut constrained: Vec<ExprRef> = vec![];
    let mut model_available = false;
    let n = rng.range(8, 40);
    let visible = |scopes: &Vec<Vec<(String, STy, ExprRef)>>| -> Vec<(String, STy, ExprRef)> {
        scopes.iter().flatten().cloned().collect()
    };
    let mk_sym = |ctx: &mut Context, name: &str, ty: STy| -> ExprRef {
        match ty {
            STy::Bv(w) => ctx.bv_symbol(name, w),
            STy::Arr(i, d) => ctx.array_symbol(name, i, d),
        }
    };
    for _ in 0..n {
        let vis = visible(&scopes);
        match rng.below(12) {
            0..=2 => {
                // declare: prefer a retired name with another type
                let (name, ty) = if !retired.is_empty() && rng.chance(3, 4) {
                    let (nm, old) = retired.remove(rng.usize_below(retired.len()));
                    let mut ty = *rng.pick(&tys);
                    if rng.chance(3, 4) {
                        while ty == old {
                            ty = *rng.pick(&tys);
                        }
                    }
                    (nm, ty)
                } else {
                    (rng.pick(&names).to_string(), *rng.pick(&tys))
                };
                if vis.iter().any(|(nm, _, _)| *nm == name) {
                    continue;
                }
                retired.retain(|(nm, _)| *nm != name);
                let sym = mk_sym(&mut ctx, &name, ty);
                cmds.push(SmtCommand::DeclareConst(sym));
                scopes.last_mut().unwrap().push((name, ty, sym));
                model_available = false;
            }
            3 => {
                // define-const over a visible symbol of the same type
                if vis.is_empty() {
                    continue;
                }
                let (_, ty, src) = vis[rng.usize_below(vis.len())].clone();
                let name = format!("d{}", rng.below(4));
                if vis.iter().any(|(nm, _, _)| *nm == name) {
                    continue;
                }
                retired.retain(|(nm, _)| *nm != name);
                let sym = mk_sym(&mut ctx, &name, ty);
                let body = match ty {
                    STy::Bv(1) => ctx.not(src),
                    STy::Bv(w) => {
                        let one = ctx.one(w);
                        ctx.add(src, one)
                    }
                    STy::Arr(i, d) => {
                        let idx = ctx.zero(i);
                        let dat = ctx.ones(d);
                        ctx.array_store(src, idx, dat)
                    }
                };
                cmds.push(SmtCommand::DefineConst(sym, body));
                scopes.last_mut().unwrap().push((name, ty, sym));
                model_available = false;
            }
            4 | 5 => {
                // assert something satisfiable: pin a symbol that has not been constrained yet
                let cands: Vec<_> = vis
                    .iter()
                    .filter(|(nm, _, e)| !nm.starts_with('d') && !constrained.contains(e))
                    .cloned()
                    .collect();
                if cands.is_empty() {
                    continue;
                }
                let (_, ty, e) = cands[rng.usize_below(cands.len())].clone();
                constrained.push(e);
                let a = match ty {
                    STy::Bv(1) => {
                        if rng.bool() {
                            e
                        } else {
                            ctx.not(e)
                        }
                    }
                    STy::Bv(w) => {
                        let lit = ctx.bit_vec_val(rng.bits_shaped(w.min(64)) as u64, w);
                        if rng.bool() { ctx.equal(e, lit) } else { ctx.greater_or_equal(e, lit) }
                    }
                    STy::Arr(i, d) => {
                        let idx = ctx.bit_vec_val(rng.bits_shaped(i) as u64, i);
                        let dat = ctx.bit_vec_val(rng.bits_shaped(d) as u64, d);
                        let rd = ctx.array_read(e, idx);
                        ctx.equal(rd, dat)
                    }
                };
                cmds.push(SmtCommand::Assert(a));
                model_available = false;
            }
            6 => {
                cmds.push(SmtCommand::Push(1));
                scopes.push(vec![]);
                model_available = false;
            }
            7 | 8 => {
                if scopes.len() > 1 {
                    let gone = scopes.pop().unwrap();
                    for (nm, ty, e) in gone {
                        constrained.retain(|c| *c != e);
                        retired.push((nm, ty));
                    }
                    cmds.push(SmtCommand::Pop(1));
                    model_available = false;
                }
            }
            9 => {
                cmds.push(SmtCommand::CheckSat);
                model_available = true;
            }
            _ => {
                if !model_available {
                    cmds.push(SmtCommand::CheckSat);
                    model_available = true;
                }
                if vis.is_empty() {
                    continue;
                }
                let (_, ty, e) = vis[rng.usize_below(vis.len())].clone();
                let q = match ty {
                    STy::Bv(w) if w > 1 && rng.bool() => ctx.slice(e, w - 1, w / 2),
                    STy::Arr(i, _) if rng.bool() => {
                        let idx = ctx.zero(i);
                        ctx.array_read(e, idx)
                    }
                    _ => e,
                };
                cmds.push(SmtCommand::GetValue(q));
            }
        }
    }
    cmds.iter()
        .map(|c| {
            let mut buf: Vec<u8> = vec![];
            patronus::smt::serialize_cmd(&mut buf, Some(&ctx), c).expect("write to a Vec");
            String::from_utf8_lossy(&buf).trim_end().to_string()
        })
        .collect()
}

pub struct C14;

fn viol(oracle: &str, class: &str, site: &str, detail: String) -> Violation {
    Violation {
        property: "C14".into(),
        oracle: oracle.into(),
        class: class.into(),
        site: site.into(),
        detail,
    }
}

// -------------------------------------------------------------------------------------------------
// (b) model values
// -------------------------------------------------------------------------------------------------

/// element sort: width 0 encodes Bool
#[derive(Clone, Debug, PartialEq, Eq)]
pub struct ValueCase {
    /// 0 = Bool, else bit-vector width
    pub width: u32,
    /// `Some((index sort, ..))` for arrays; index width 0 = Bool
    pub index: Option<u32>,
    /// default / scalar value, MSB first
    pub default: String,
    /// array entries in print order (inner to outer): (index bits, data bits, shadowed)
    pub entries: Vec<(String, String)>,
    /// innermost store that is overwritten by a later one: index into `entries`
    pub shadow: Option<usize>,
    pub hex: bool,
    /// 0 none, 1 nested single-binding lets, 2 one let with several bindings, 3 nested
    /// single-binding lets that bind the same name at every level (each shadows the outer one)
    pub lets: u32,
    pub layout_seed: u64,
    pub multiline: bool,
    pub benign: bool,
    pub seed: u64,
    /// for malformed variants: cut the reply after this many bytes and let the solver die
    pub cut: Option<usize>,
    /// read the value term through `parse_expr` with a symbol table in which symbols named like
    /// the term's let variables (`a!1`, `d!2`, ...) are declared: a let binding shadows them
    pub declared_clash: bool,
}

fn rand_bits(rng: &mut Rng, w: u32) -> String {
    let w = w.max(1);
    match rng.below(8) {
        0 => "0".repeat(w as usize),
        1 => format!("{}1", "0".repeat(w as usize - 1)),
        2 => "1".repeat(w as usize),
        3 => {
            let p = rng.below(w as u64) as usize;
            (0..w as usize).map(|i| if i == p { '1' } else { '0' }).collect()
        }
        _ => (0..w).map(|_| if rng.bool() { '1' } else { '0' }).collect(),
    }
}

fn esort_txt(w: u32) -> String {
    if w == 0 { "Bool".into() } else { format!("(_ BitVec {w})") }
}

fn scalar_txt(bits: &str, w: u32, hex: bool) -> String {
    if w == 0 {
        return (if bits == "1" { "true" } else { "false" }).to_string();
    }
    if hex && w % 4 == 0 {
        let mut s = String::from("#x");
        for c in bits.as_bytes().chunks(4) {
            let v = u8::from_str_radix(std::str::from_utf8(c).unwrap(), 2).unwrap();
            s.push_str(&format!("{v:x}"));
        }
        s
    } else {
        format!("#b{bits}")
    }
}

impl ValueCase {
    pub fn random(rng: &mut Rng) -> Self {
        let widths = [0u32, 0, 1, 2, 3, 4, 5, 7, 8, 15, 16, 17, 31, 32, 33, 63, 64, 65, 127, 128, 129];
        let width = *rng.pick(&widths);
        let index = if rng.chance(1, 2) {
            Some(*rng.pick(&[0u32, 0, 1, 2, 3, 4, 8, 16, 32]))
        } else {
            None
        };
        let default = rand_bits(rng, width);
        let mut entries = vec![];
        let mut shadow = None;
        if let Some(iw) = index {
            let max_entries = if iw == 0 { 2 } else { (1u64 << iw.min(3)).min(6) };
            let n = rng.below(max_entries + 1);
            let mut used: Vec<String> = vec![];
            for _ in 0..n {
                let idx = rand_bits(rng, iw);
                if used.contains(&idx) {
                    continue;
                }
                used.push(idx.clone());
                entries.push((idx, rand_bits(rng, width)));
            }
            if !entries.is_empty() && rng.chance(1, 3) {
                shadow = Some(rng.usize_below(entries.len()));
            }
        }
        ValueCase {
            width,
            index,
            default,
            entries,
            shadow,
            hex: rng.bool(),
            lets: if index.is_some() { *rng.pick(&[0, 0, 1, 1, 2, 3]) } else { 0 },
            layout_seed: rng.next_u64(),
            multiline: rng.chance(1, 2),
            benign: true,
            seed: rng.next_u64(),
            cut: None,
            declared_clash: false,
        }
    }

    pub fn sort_txt(&self) -> String {
        match self.index {
            None => esort_txt(self.width),
            Some(iw) => format!("(Array {} {})", esort_txt(iw), esort_txt(self.width)),
        }
    }

    /// the value term as a solver would print it
    pub fn value_txt(&self) -> String {
        let Some(iw) = self.index else {
            return scalar_txt(&self.default, self.width, self.hex);
        };
        let mut txt = format!(
            "((as const {}) {})",
            self.sort_txt(),
            scalar_txt(&self.default, self.width, self.hex)
        );
        if let Some(s) = self.shadow {
            // a store to the same index with the complemented value, overwritten later
            let (idx, data) = &self.entries[s];
            let flipped: String = data.chars().map(|c| if c == '0' { '1' } else { '0' }).collect();
            txt = format!(
                "(store {txt} {} {})",
                scalar_txt(idx, iw, self.hex),
                scalar_txt(&flipped, self.width, self.hex)
            );
        }
        let mut bindings: Vec<(String, String)> = vec![];
        for (n, (idx, data)) in self.entries.iter().enumerate() {
            let it = scalar_txt(idx, iw, self.hex);
            let dt = scalar_txt(data, self.width, self.hex);
            match self.lets {
                1 | 3 => {
                    // nested single-binding lets around the array built so far
                    let name = if self.lets == 3 { "a!1".to_string() } else { format!("a!{}", n + 1) };
                    bindings.push((name.clone(), txt));
                    txt = format!("(store {name} {it} {dt})");
                }
                2 => {
                    // the data values are bound together in one multi-binding let
                    let name = format!("d!{}", n + 1);
                    bindings.push((name.clone(), dt));
                    txt = format!("(store {txt} {it} {name})");
                }
                _ => txt = format!("(store {txt} {it} {dt})"),
            }
        }
        match self.lets {
            1 | 3 => {
                for (name, def) in bindings.into_iter().rev() {
                    txt = format!("(let (({name} {def})) {txt})");
                }
            }
            2 if !bindings.is_empty() => {
                let b: Vec<String> = bindings.iter().map(|(n, d)| format!("({n} {d})")).collect();
                txt = format!("(let ({}) {txt})", b.join(" "));
            }
            _ => {}
        }
        txt
    }

    pub fn reply_txt(&self) -> String {
        let text = format!("((v {}))", self.value_txt());
        let mut rng = Rng::new(self.layout_seed);
        let mut out = String::new();
        for c in text.chars() {
            if c == ' ' && self.multiline {
                match rng.below(5) {
                    0 => out.push_str("\n  "),
                    1 => out.push_str("  "),
                    _ => out.push(' '),
                }
            } else {
                out.push(c);
            }
        }
        match self.cut {
            Some(c) => out[..c.min(out.len())].to_string(),
            None => {
                out.push('\n');
                out
            }
        }
    }

    fn to_json(&self) -> Value {
        json!({"kind": "value", "width": self.width, "index_width": self.index, "default": self.default,
            "entries": self.entries.iter().map(|(i, d)| json!([i, d])).collect::<Vec<_>>(),
            "shadow": self.shadow, "hex": self.hex, "lets": self.lets,
            "layout_seed": format!("{:#x}", self.layout_seed), "multiline": self.multiline,
            "benign_transport": self.benign, "seed": format!("{:#x}", self.seed), "cut": self.cut,
            "declared_clash": self.declared_clash,
            "reply_text": self.reply_txt(), "sort": self.sort_txt()})
    }

    fn from_json(v: &Value) -> Result<Self, String> {
        let hx = |k: &str| -> Result<u64, String> {
            u64::from_str_radix(v[k].as_str().ok_or(k.to_string())?.trim_start_matches("0x"), 16)
                .map_err(|e| e.to_string())
        };
        Ok(ValueCase {
            width: v["width"].as_u64().ok_or("width")? as u32,
            index: v["index_width"].as_u64().map(|x| x as u32),
            default: v["default"].as_str().ok_or("default")?.to_string(),
            entries: v["entries"]
                .as_array()
                .ok_or("entries")?
                .iter()
                .map(|e| (e[0].as_str().unwrap().to_string(), e[1].as_str().unwrap().to_string()))
                .collect(),
            shadow: v["shadow"].as_u64().map(|x| x as usize),
            hex: v["hex"].as_bool().unwrap_or(false),
            lets: v["lets"].as_u64().unwrap_or(0) as u32,
            layout_seed: hx("layout_seed")?,
            multiline: v["multiline"].as_bool().unwrap_or(false),
            benign: v["benign_transport"].as_bool().unwrap_or(true),
            seed: hx("seed")?,
            cut: v["cut"].as_u64().map(|x| x as usize),
            declared_clash: v["declared_clash"].as_bool().unwrap_or(false),
        })
    }

    fn shrink(&self) -> Vec<ValueCase> {
        let mut out = vec![];
        let mut push = |f: &dyn Fn(&mut ValueCase)| {
            let mut c = self.clone();
            f(&mut c);
            if c != *self {
                out.push(c);
            }
        };
        push(&|c| c.benign = false);
        push(&|c| c.multiline = false);
        push(&|c| c.lets = 0);
        push(&|c| c.shadow = None);
        push(&|c| c.hex = false);
        for i in 0..self.entries.len() {
            push(&|c| {
                c.entries.remove(i);
                c.shadow = None;
            });
        }
        if self.index.is_some() && self.cut.is_none() {
            push(&|c| {
                c.index = None;
                c.entries.clear();
                c.shadow = None;
                c.lets = 0;
            });
        }
        out
    }
}

enum GotValue {
    Bv(u32, String),
    Arr {
        iw: u32,
        dw: u32,
        sample: Vec<(String, String)>,
    },
}

/// drives `get_smt_value` (declare, check-sat, get-value) against a scripted solver
fn got_of(v: baa::Value, probe_indices: &[String]) -> GotValue {
    match v {
        baa::Value::BitVec(b) => GotValue::Bv(b.width(), b.to_bit_str()),
        baa::Value::Array(a) => {
            let iw = a.index_width();
            let sample = probe_indices
                .iter()
                .map(|i| {
                    let idx = baa::BitVecValue::from_bit_str(i).unwrap();
                    (i.clone(), a.select(&idx).to_bit_str())
                })
                .collect();
            GotValue::Arr {
                iw,
                dw: a.data_width(),
                sample,
            }
        }
    }
}

/// reads the value term with `parse_expr` under a symbol table that declares symbols with the
/// names of the term's let variables (same sorts, so a reader that resolves the name to the
/// declared symbol still builds a well-typed term). The term is closed: the expression read must
/// not mention any of them.
fn run_value_case_declared(case: &ValueCase, probe_indices: &[String]) -> Outcome<GotValue> {
    guarded(|| {
        let mut ctx = Context::default();
        let w = |x: u32| if x == 0 { 1 } else { x };
        let mut st: FxHashMap<String, patronus::expr::ExprRef> = FxHashMap::default();
        for n in 1..=8 {
            if let Some(iw) = case.index {
                let a = ctx.array_symbol(&format!("a!{n}"), w(iw), w(case.width));
                st.insert(format!("a!{n}"), a);
            }
            let d = ctx.bv_symbol(&format!("d!{n}"), w(case.width));
            st.insert(format!("d!{n}"), d);
        }
        let e = patronus::smt::parse_expr(&mut ctx, &st, case.value_txt().as_bytes()).map_err(|e| format!("{e} [{e:?}]"))?;
        let mut free = false;
        patronus::expr::traversal::bottom_up(&ctx, e, |c, x, _: &[()]| {
            if c[x].is_symbol() {
                free = true;
            }
        });
        if free {
            use patronus::expr::SerializableIrNode;
            return Err(format!("FREE-SYMBOL: the closed value term was read as `{}`", e.serialize_to_str(&ctx)));
        }
        let v = patronus::expr::eval_expr(&ctx, &FxHashMap::default(), e);
        Ok(got_of(v, probe_indices))
    })
}

fn run_value_case(case: &ValueCase, probe_indices: &[String]) -> Outcome<GotValue> {
    if case.declared_clash && case.cut.is_none() {
        return run_value_case_declared(case, probe_indices);
    }
    let st = canned_world(
        case.seed,
        vec!["sat\n".to_string(), case.reply_txt()],
        case.benign,
        case.cut.is_some(),
    );
    patronus::smt::verif_seam::set_spawner(make_canned_spawner(st.clone()));
    let out = guarded(|| {
        let mut ctx = Context::default();
        let w = |x: u32| if x == 0 { 1 } else { x };
        let sym = match case.index {
            None => ctx.bv_symbol("v", w(case.width)),
            Some(iw) => ctx.array_symbol("v", w(iw), w(case.width)),
        };
        let mut smt = patronus::smt::Z3.start(None).map_err(|e| format!("start: {e:?}"))?;
        smt.declare_const(&ctx, sym).map_err(|e| format!("declare: {e:?}"))?;
        smt.check_sat().map_err(|e| format!("check: {e:?}"))?;
        let v = patronus::mc::get_smt_value(&mut ctx, &mut smt, sym).map_err(|e| format!("{e} [{e:?}]"))?;
        Ok(match v {
            baa::Value::BitVec(b) => GotValue::Bv(b.width(), b.to_bit_str()),
            baa::Value::Array(a) => {
                let iw = a.index_width();
                let sample = probe_indices
                    .iter()
                    .map(|i| {
                        let idx = baa::BitVecValue::from_bit_str(i).unwrap();
                        (i.clone(), a.select(&idx).to_bit_str())
                    })
                    .collect();
                GotValue::Arr {
                    iw,
                    dw: a.data_width(),
                    sample,
                }
            }
        })
    });
    patronus::smt::verif_seam::clear_spawner();
    out
}

fn judge_value(case: &ValueCase, acc: &mut Acc) -> Option<Violation> {
    let w = |x: u32| if x == 0 { 1 } else { x };
    // indices to probe: all stored ones, plus a few others
    let mut probes: Vec<String> = case.entries.iter().map(|e| e.0.clone()).collect();
    if let Some(iw) = case.index {
        let mut prng = Rng::new(case.seed ^ 0x55);
        for _ in 0..6 {
            let p = rand_bits(&mut prng, iw);
            if !probes.contains(&p) {
                probes.push(p);
            }
        }
        if w(iw) <= 4 {
            for i in 0..(1u32 << w(iw)) {
                let p: String = (0..w(iw)).rev().map(|b| if (i >> b) & 1 == 1 { '1' } else { '0' }).collect();
                if !probes.contains(&p) {
                    probes.push(p);
                }
            }
        }
    }
    let out = run_value_case(case, &probes);
    let detail_ctx = format!("sort {} reply `{}`", case.sort_txt(), case.reply_txt().trim_end());
    let v = if case.cut.is_some() {
        // (c) malformed: must be an error
        match out {
            Outcome::Err(_) => {
                acc.count("malformed.rejected_with_error", 1);
                None
            }
            Outcome::Ok(_) => Some(viol(
                "C14/c",
                "ValueFromMalformedReply",
                "get_value",
                format!("a truncated reply was read as a value: {detail_ctx}"),
            )),
            Outcome::Panic { loc, msg } => Some(viol(
                "C14/c",
                "Panic",
                &loc,
                format!("reader panicked at {loc} ({msg}) on a truncated reply: {detail_ctx}"),
            )),
            other => Some(viol(
                "C14/c",
                other.class(),
                "get_value",
                format!("reader hangs on a truncated reply: {detail_ctx}"),
            )),
        }
    } else {
        match out {
            Outcome::Ok(GotValue::Bv(gw, bits)) => {
                if case.index.is_some() || gw != w(case.width) || bits != case.default {
                    Some(viol(
                        "C14/b",
                        "WrongValue",
                        "scalar",
                        format!("read {gw}'b{bits}, the reply denotes {}'b{}: {detail_ctx}", w(case.width), case.default),
                    ))
                } else {
                    None
                }
            }
            Outcome::Ok(GotValue::Arr { iw, dw, sample }) => {
                let mut bad = None;
                match case.index {
                    None => bad = Some("an array was read for a scalar reply".to_string()),
                    Some(ciw) => {
                        if iw != w(ciw) || dw != w(case.width) {
                            bad = Some(format!("array sort {iw}->{dw} instead of {}->{}", w(ciw), w(case.width)));
                        }
                        for (idx, got) in &sample {
                            let exp = case
                                .entries
                                .iter()
                                .find(|e| e.0 == *idx)
                                .map(|e| e.1.clone())
                                .unwrap_or_else(|| case.default.clone());
                            if *got != exp {
                                bad = Some(format!("at index {idx} read {got}, the reply denotes {exp}"));
                                break;
                            }
                        }
                    }
                }
                bad.map(|b| viol("C14/b", "WrongValue", "array", format!("{b}: {detail_ctx}")))
            }
            Outcome::Err(e) if e.starts_with("FREE-SYMBOL") => Some(viol(
                "C14/b",
                "WrongValue",
                "let-variable-resolved-to-declared-symbol",
                format!("{e}; symbols named like its let variables are declared, and a let binding shadows them: {detail_ctx}"),
            )),
            Outcome::Err(e) => {
                let site = if case.lets == 2 {
                    "multi-binding-let"
                } else if case.lets == 1 {
                    "nested-let"
                } else if case.lets == 3 {
                    "shadowing-nested-let"
                } else if case.index.is_some() {
                    "array"
                } else {
                    "scalar"
                };
                Some(viol(
                    "C14/b",
                    "ValueRejected",
                    site,
                    format!("a well-formed model value was rejected ({e}): {detail_ctx}"),
                ))
            }
            Outcome::Panic { loc, msg } => Some(viol(
                "C14/b",
                "Panic",
                &loc,
                format!("reader panicked at {loc} ({msg}): {detail_ctx}"),
            )),
            other => Some(viol(
                "C14/b",
                other.class(),
                "get_value",
                format!("reader hangs: {detail_ctx}"),
            )),
        }
    };
    match v {
        Some(v) if filter_known(acc, &v) => None,
        other => other,
    }
}

// -------------------------------------------------------------------------------------------------
// (c) direct: unbalanced / truncated terms and commands through the public parse functions
// -------------------------------------------------------------------------------------------------

fn is_balanced(s: &str) -> bool {
    let mut d = 0i64;
    for c in s.chars() {
        match c {
            '(' => d += 1,
            ')' => {
                d -= 1;
                if d < 0 {
                    return false;
                }
            }
            _ => {}
        }
    }
    d == 0
}

fn judge_direct(text: &str, as_command: bool, acc: &mut Acc) -> Option<Violation> {
    let t = text.to_string();
    let out = guarded(|| {
        let mut ctx = Context::default();
        let st: FxHashMap<String, patronus::expr::ExprRef> = FxHashMap::default();
        if as_command {
            match patronus::smt::parse_command(&mut ctx, &st, t.as_bytes()) {
                Ok(c) => Ok(format!("{c:?}")),
                Err(e) => Err(format!("{e}")),
            }
        } else {
            match patronus::smt::parse_expr(&mut ctx, &st, t.as_bytes()) {
                Ok(e) => {
                    use patronus::expr::SerializableIrNode;
                    Ok(e.serialize_to_str(&ctx))
                }
                Err(e) => Err(format!("{e}")),
            }
        }
    });
    let what = if as_command { "parse_command" } else { "parse_expr" };
    let v = match out {
        Outcome::Err(_) => {
            acc.count("malformed.direct_rejected_with_error", 1);
            None
        }
        Outcome::Ok(v) => Some(viol(
            "C14/c",
            "ValueFromMalformedText",
            what,
            format!("{what} read the unbalanced text `{text}` as `{v}`"),
        )),
        Outcome::Panic { loc, msg } => Some(viol(
            "C14/c",
            "Panic",
            &loc,
            format!("{what} panicked at {loc} ({msg}) on `{text}`"),
        )),
        other => Some(viol("C14/c", other.class(), what, format!("{what} on `{text}`"))),
    };
    match v {
        Some(v) if filter_known(acc, &v) => None,
        other => other,
    }
}

fn unbalanced_variants(rng: &mut Rng, term: &str) -> Vec<String> {
    let mut out = vec![];
    let parens: Vec<usize> = term
        .char_indices()
        .filter(|(_, c)| *c == '(' || *c == ')')
        .map(|(i, _)| i)
        .collect();
    if parens.is_empty() {
        return out;
    }
    // proper prefixes
    for _ in 0..3 {
        let cut = 1 + rng.usize_below(term.len() - 1);
        let p = &term[..cut];
        if !is_balanced(p) {
            out.push(p.to_string());
        }
    }
    // delete one parenthesis
    let p = *rng.pick(&parens);
    let mut s = term.to_string();
    s.remove(p);
    if !is_balanced(&s) {
        out.push(s);
    }
    // duplicate one parenthesis
    let p = *rng.pick(&parens);
    let mut s = term.to_string();
    let c = s.as_bytes()[p] as char;
    s.insert(p, c);
    if !is_balanced(&s) {
        out.push(s);
    }
    // extra closing parenthesis
    out.push(format!("{term})"));
    out
}

// -------------------------------------------------------------------------------------------------
// (a) reader inverts writer
// -------------------------------------------------------------------------------------------------

struct ChunkRead {
    data: Vec<u8>,
    pos: usize,
    rng: Rng,
    eof_reads: u32,
}

impl Read for ChunkRead {
    fn read(&mut self, buf: &mut [u8]) -> std::io::Result<usize> {
        if PANICKED.with(|p| p.get()) {
            return Err(std::io::Error::other("poisoned"));
        }
        if self.pos >= self.data.len() {
            self.eof_reads += 1;
            if self.eof_reads > 64 {
                std::panic::panic_any(SimAbort::Livelock(
                    "more than 64 consecutive reads at end-of-file of the command stream".into(),
                ));
            }
            return Ok(0);
        }
        if self.rng.chance(1, 10) {
            return Err(std::io::Error::new(std::io::ErrorKind::Interrupted, "EINTR"));
        }
        let avail = (self.data.len() - self.pos).min(buf.len());
        let n = match self.rng.below(4) {
            0 => 1,
            1 => 1 + self.rng.usize_below(avail.min(7)),
            _ => 1 + self.rng.usize_below(avail),
        };
        buf[..n].copy_from_slice(&self.data[self.pos..self.pos + n]);
        self.pos += n;
        Ok(n)
    }
}

#[derive(Clone, Debug)]
pub struct ReaderCase {
    pub commands: Vec<String>,
    pub seed: u64,
    /// append a truncated copy of the last command (then EOF)
    pub truncated_tail: Option<usize>,
}

impl ReaderCase {
    fn to_json(&self) -> Value {
        json!({"kind": "reader", "commands": self.commands, "seed": format!("{:#x}", self.seed), "truncated_tail": self.truncated_tail})
    }
    fn from_json(v: &Value) -> Result<Self, String> {
        Ok(ReaderCase {
            commands: v["commands"]
                .as_array()
                .ok_or("commands")?
                .iter()
                .map(|c| c.as_str().unwrap_or("").to_string())
                .collect(),
            seed: u64::from_str_radix(v["seed"].as_str().ok_or("seed")?.trim_start_matches("0x"), 16)
                .map_err(|e| e.to_string())?,
            truncated_tail: v["truncated_tail"].as_u64().map(|x| x as usize),
        })
    }
}

fn random_val_of(rng: &mut Rng, s: Sort) -> Val {
    match s {
        Sort::Bool => Val::B(Bv::new(1, rng.below(2) as u128)),
        Sort::Bv(w) => Val::B(Bv::new(w, rng.bits_shaped(w))),
        Sort::Arr(i, d) => {
            let mut a = Arr::constant(i.width(), d.width(), rng.bits_shaped(d.width()));
            for _ in 0..rng.below(4) {
                a = a.store(rng.bits_shaped(i.width()), rng.bits_shaped(d.width()));
            }
            Val::A(a)
        }
    }
}

fn kind_of(cmd: &SmtCommand) -> CmdKind {
    match cmd {
        SmtCommand::Exit => CmdKind::Exit,
        SmtCommand::CheckSat => CmdKind::CheckSat,
        SmtCommand::SetLogic(_) => CmdKind::SetLogic,
        SmtCommand::SetOption(..) => CmdKind::SetOption,
        SmtCommand::SetInfo(..) => CmdKind::SetInfo,
        SmtCommand::Assert(_) => CmdKind::Assert,
        SmtCommand::DeclareConst(_) => CmdKind::Declare,
        SmtCommand::DefineConst(..) => CmdKind::Define,
        SmtCommand::CheckSatAssuming(_) => CmdKind::CheckSatAssuming,
        SmtCommand::Push(_) => CmdKind::Push,
        SmtCommand::Pop(_) => CmdKind::Pop,
        SmtCommand::GetValue(_) => CmdKind::GetValue,
        SmtCommand::GetUnsatAssumptions => CmdKind::GetUnsatAssumptions,
    }
}

fn judge_reader(case: &ReaderCase, acc: &mut Acc) -> Option<Violation> {
    // reference side: an independent parse of every command
    let mut refs = RefSolver::new(PROFILES[0].clone(), Policy::canonical(), 0);
    let mut ref_cmds: Vec<(Sexp, CmdKind)> = vec![];
    for c in &case.commands {
        let sx = match parse_one(c) {
            Ok(s) => s,
            Err(_) => continue,
        };
        let k = classify(&sx);
        ref_cmds.push((sx, k));
    }
    let mut text = case.commands.join("\n");
    text.push('\n');
    if let Some(cut) = case.truncated_tail {
        if let Some(last) = case.commands.last() {
            let cut = cut.min(last.len().saturating_sub(1)).max(1);
            text.push_str(&last[..cut]);
        }
    }
    let n_expected = ref_cmds.len();
    let has_tail = case.truncated_tail.is_some() && !case.commands.is_empty();
    let seed = case.seed;
    let mut mismatch: Option<Violation> = None;
    let mut n_read = 0usize;
    let mut n_exprs = 0u64;
    let out = guarded(|| {
        let mut ctx = Context::default();
        let mut st: FxHashMap<String, patronus::expr::ExprRef> = FxHashMap::default();
        let reader = ChunkRead {
            data: text.clone().into_bytes(),
            pos: 0,
            rng: Rng::stream(seed, "chunks"),
            eof_reads: 0,
        };
        let mut inp = std::io::BufReader::with_capacity(16, reader);
        let mut vrng = Rng::stream(seed, "assignments");
        loop {
            let cmd = match patronus::smt::read_command(&mut inp, &mut ctx, &mut st) {
                Ok(Some(c)) => c,
                Ok(None) => {
                    if n_read >= n_expected && has_tail {
                        // the stream ends inside a command: that is malformed text, not a
                        // clean end of file
                        mismatch = Some(viol(
                            "C14/c",
                            "TruncatedCommandDropped",
                            "read_command",
                            "read_command reported a clean end of file (Ok(None)) although the stream ends in the middle of a command".to_string(),
                        ));
                    }
                    break;
                }
                Err(e) => {
                    if n_read >= n_expected {
                        // error on the truncated tail: fine
                        break;
                    }
                    return Err(format!("read_command failed on `{}`: {e}", case.commands[n_read]));
                }
            };
            if n_read >= n_expected {
                // something was read from the truncated tail
                mismatch = Some(viol(
                    "C14/c",
                    "CommandFromTruncatedText",
                    "read_command",
                    format!("read_command produced {cmd:?} from a truncated command followed by end-of-file"),
                ));
                break;
            }
            let (sx, kind) = &ref_cmds[n_read];
            let line = &case.commands[n_read];
            n_read += 1;
            if kind_of(&cmd) != *kind {
                mismatch = Some(viol(
                    "C14/a",
                    "WrongCommandKind",
                    kind.short(),
                    format!("`{line}` was read back as {cmd:?}"),
                ));
                break;
            }
            // a second `set-logic` starts a new solver session (the log of a run that restarted its
            // solver, as patronus' replay file would hold it): the reference starts afresh as well
            if *kind == CmdKind::SetLogic && n_read > 1 {
                refs = RefSolver::new(PROFILES[0].clone(), Policy::canonical(), 0);
            }
            // reference execution (keeps the symbol table in step)
            let reply = refs.exec(sx);
            if reply.error.is_some() {
                // not a reader question (e.g. profile specific); stop comparing this log
                break;
            }
            let l = sx.list().unwrap();
            // expressions to compare: (patronus expr, reference sexp)
            let mut pairs: Vec<(patronus::expr::ExprRef, &Sexp)> = vec![];
            match &cmd {
                SmtCommand::Assert(e) | SmtCommand::GetValue(e) => {
                    let body = if *kind == CmdKind::GetValue { &l[1].list().unwrap()[0] } else { &l[1] };
                    pairs.push((*e, body));
                }
                SmtCommand::DefineConst(sym, e) => {
                    let name = l[1].sym().unwrap_or("");
                    if ctx.get_symbol_name(*sym) != Some(name) {
                        mismatch = Some(viol("C14/a", "WrongSymbol", "define-fun", format!("`{line}` defines {:?}", ctx.get_symbol_name(*sym))));
                        break;
                    }
                    pairs.push((*e, &l[4]));
                }
                SmtCommand::DeclareConst(sym) => {
                    use patronus::expr::TypeCheck;
                    let name = l[1].sym().unwrap_or("");
                    let sort = refs.terms.lookup(name).map(|i| i.sort);
                    let tpe = sym.get_type(&ctx);
                    let ok = match (sort, tpe) {
                        (Some(Sort::Bool), patronus::expr::Type::BV(1)) => true,
                        (Some(Sort::Bv(w)), patronus::expr::Type::BV(pw)) => w == pw && w > 1 || (w == 1 && pw == 1),
                        (Some(Sort::Arr(i, d)), patronus::expr::Type::Array(a)) => {
                            i.width() == a.index_width && d.width() == a.data_width
                        }
                        _ => false,
                    };
                    if ctx.get_symbol_name(*sym) != Some(name) || !ok {
                        mismatch = Some(viol(
                            "C14/a",
                            "WrongDeclaration",
                            "declare-const",
                            format!("`{line}` was read back as a declaration of {:?} : {tpe:?}", ctx.get_symbol_name(*sym)),
                        ));
                        break;
                    }
                }
                SmtCommand::CheckSatAssuming(es) => {
                    let items = l[1].list().unwrap();
                    if es.len() != items.len() {
                        mismatch = Some(viol(
                            "C14/a",
                            "WrongAssumptionCount",
                            "check-sat-assuming",
                            format!("`{line}` has {} assumptions, {} were read back", items.len(), es.len()),
                        ));
                        break;
                    }
                    for (e, it) in es.iter().zip(items.iter()) {
                        pairs.push((*e, it));
                    }
                }
                SmtCommand::Push(n) | SmtCommand::Pop(n) => {
                    let want = l.get(1).and_then(|x| if let Sexp::Num(n) = x { n.parse::<u64>().ok() } else { None }).unwrap_or(1);
                    if *n != want {
                        mismatch = Some(viol("C14/a", "WrongOperand", "push-pop", format!("`{line}` was read back as {cmd:?}")));
                        break;
                    }
                }
                SmtCommand::SetLogic(lg) => {
                    let want = l[1].sym().unwrap_or("");
                    let got = format!("{lg:?}").to_uppercase().replace("QF", "QF_");
                    let norm = |s: &str| s.replace('_', "").to_uppercase();
                    if norm(&got) != norm(want) {
                        mismatch = Some(viol("C14/a", "WrongOperand", "set-logic", format!("`{line}` was read back as {cmd:?}")));
                        break;
                    }
                }
                _ => {}
            }
            // equivalence under random assignments of the declared symbols
            for (pe, rsx) in pairs {
                let rt = match refs.terms.parse_term(rsx) {
                    Ok(t) => t,
                    Err(_) => continue,
                };
                // types agree
                {
                    use patronus::expr::TypeCheck;
                    let tpe = pe.get_type(&ctx);
                    let ok = match (refs.terms.sort(rt), tpe) {
                        (Sort::Bool, patronus::expr::Type::BV(1)) => true,
                        (Sort::Bv(w), patronus::expr::Type::BV(pw)) => w == pw,
                        (Sort::Arr(i, d), patronus::expr::Type::Array(a)) => i.width() == a.index_width && d.width() == a.data_width,
                        _ => false,
                    };
                    if !ok {
                        mismatch = Some(viol(
                            "C14/a",
                            "WrongType",
                            kind.short(),
                            format!("term `{}` of sort {} was read back with type {tpe:?}", rsx.show(), refs.terms.sort(rt).show()),
                        ));
                        break;
                    }
                }
                n_exprs += 1;
                for _ in 0..16 {
                    let mut assign: FxHashMap<String, Val> = FxHashMap::default();
                    for id in refs.terms.visible_declared() {
                        let info = &refs.terms.syms[id as usize];
                        assign.insert(info.name.clone(), random_val_of(&mut vrng, info.sort));
                    }
                    // reference value: defined symbols are inlined in the reference terms
                    let syms = &refs.terms.syms;
                    let renv = |id: u32| -> Val { assign[&syms[id as usize].name].clone() };
                    let mut rmemo = FxHashMap::default();
                    let rv = refs.terms.eval(rt, &renv, &mut rmemo);
                    // patronus side: defined symbols are plain symbols; give them the value of
                    // their reference definition
                    let penv = |name: &str| -> Option<Val> {
                        if let Some(v) = assign.get(name) {
                            return Some(v.clone());
                        }
                        let info = refs.terms.lookup(name)?;
                        let t = info.def?;
                        let mut m = FxHashMap::default();
                        Some(refs.terms.eval(t, &renv, &mut m))
                    };
                    let mut pmemo = FxHashMap::default();
                    match irx::eval(&ctx, pe, &penv, &mut pmemo) {
                        Ok(pv) => {
                            if pv != rv {
                                mismatch = Some(viol(
                                    "C14/a",
                                    "NotEquivalent",
                                    kind.short(),
                                    format!(
                                        "term `{}` evaluates to {} but what the reader built evaluates to {} (command `{line}`)",
                                        rsx.show(),
                                        rv.show(),
                                        pv.show()
                                    ),
                                ));
                                break;
                            }
                        }
                        Err(irx::IrxError::Unbound(n)) => {
                            mismatch = Some(viol(
                                "C14/a",
                                "UnknownSymbolInResult",
                                kind.short(),
                                format!("reader produced a reference to `{n}`, which the script never introduced (command `{line}`)"),
                            ));
                            break;
                        }
                        Err(irx::IrxError::TooWide(_)) => break,
                    }
                }
                if mismatch.is_some() {
                    break;
                }
            }
            if mismatch.is_some() {
                break;
            }
        }
        Ok(())
    });
    acc.count("reader.commands_read_back", n_read as u64);
    acc.count("reader.expressions_compared", n_exprs);
    let v = if let Some(m) = mismatch {
        Some(m)
    } else {
        match out {
            Outcome::Ok(()) => {
                if n_read < n_expected && refs.stub_failure.is_none() && !refs.had_error {
                    Some(viol(
                        "C14/a",
                        "CommandsLost",
                        "read_command",
                        format!("only {n_read} of {n_expected} commands were read back; next: `{}`", case.commands[n_read]),
                    ))
                } else {
                    None
                }
            }
            Outcome::Err(e) => {
                let kind = ref_cmds.get(n_read).map(|c| c.1.short()).unwrap_or("?");
                Some(viol("C14/a", "CommandRejected", kind, e))
            }
            Outcome::Panic { loc, msg } => {
                let kind = ref_cmds.get(n_read).map(|c| c.1.short()).unwrap_or("tail");
                Some(viol(
                    "C14/a",
                    "Panic",
                    &format!("{kind}@{loc}"),
                    format!(
                        "read_command panicked at {loc}: {msg}; command: `{}`",
                        case.commands.get(n_read).cloned().unwrap_or_else(|| "<truncated tail>".into())
                    ),
                ))
            }
            other => Some(viol(
                "C14/c",
                other.class(),
                "read_command",
                format!("read_command does not return on a truncated command followed by end-of-file: {}", other.describe()),
            )),
        }
    };
    match v {
        Some(v) if filter_known(acc, &v) => None,
        other => other,
    }
}

impl Property for C14 {
    fn id(&self) -> &'static str {
        "C14"
    }
    fn runs(&self, tier: Tier) -> usize {
        match tier {
            Tier::Quick => 20_000,
            Tier::Thorough => 2_500_000,
        }
    }

    fn run(&self, run_seed: u64, tier: Tier, acc: &mut Acc) -> Option<(Violation, Value)> {
        let mut rng = Rng::stream(run_seed, "workload");
        // (b) values in all print forms
        for _ in 0..8 {
            let case = ValueCase::random(&mut rng);
            acc.evaluations += 1;
            acc.distinct.insert(crate::rng::fnv1a(
                format!("{}|{}|{}|{}|{}", case.sort_txt(), case.hex, case.lets, case.shadow.is_some(), case.entries.len()).as_bytes(),
            ));
            acc.count(if case.index.is_some() { "values.array" } else { "values.scalar" }, 1);
            acc.count("probe.value_wider_than_64_bits", (case.width > 64) as u64);
            acc.count("probe.bool_indexed_array", (case.index == Some(0)) as u64);
            acc.count("probe.bool_valued_array", (case.index.is_some() && case.width == 0) as u64);
            acc.count("probe.value_with_nested_let", (case.lets == 1 && !case.entries.is_empty()) as u64);
            acc.count("probe.value_with_shadowing_nested_let", (case.lets == 3 && case.entries.len() >= 2) as u64);
            acc.count("probe.value_with_multi_binding_let", (case.lets == 2 && !case.entries.is_empty()) as u64);
            acc.count("probe.value_with_shadowed_store", case.shadow.is_some() as u64);
            acc.count("probe.reply_spanned_lines", case.reply_txt().trim_end().contains('\n') as u64);
            if acc.samples.is_empty() && case.index.is_some() && !case.entries.is_empty() {
                acc.samples.push(json!({"sort": case.sort_txt(), "reply": case.reply_txt()}));
            }
            if let Some(v) = judge_value(&case, acc) {
                return Some((v, case.to_json()));
            }
            // the same term read with symbols declared under the names of its let variables
            if case.lets != 0 && !case.entries.is_empty() {
                let mut c = case.clone();
                c.declared_clash = true;
                acc.evaluations += 1;
                acc.count("probe.value_let_names_also_declared", 1);
                if let Some(v) = judge_value(&c, acc) {
                    return Some((v, c.to_json()));
                }
            }
            // (c) through the transport: cut the same reply and let the solver die
            let full = case.reply_txt();
            let trimmed_len = full.trim_end().len();
            if trimmed_len >= 2 {
                let n_cuts = if tier == Tier::Thorough { 6 } else { 2 };
                for _ in 0..n_cuts {
                    let mut c = case.clone();
                    c.cut = Some(1 + rng.usize_below(trimmed_len - 1));
                    acc.evaluations += 1;
                    acc.count("fault.truncated+exit", 1);
                    if let Some(v) = judge_value(&c, acc) {
                        return Some((v, c.to_json()));
                    }
                }
            }
            // (c) direct: unbalanced variants of compound value terms
            if case.index.is_some() {
                for t in unbalanced_variants(&mut rng, &case.value_txt()) {
                    acc.evaluations += 1;
                    if let Some(v) = judge_direct(&t, false, acc) {
                        return Some((v, json!({"kind": "direct", "text": t, "as_command": false})));
                    }
                }
            }
        }
        // (a) wire log of a simulated conversation read back through read_command
        let mut crng = Rng::stream(run_seed, "config");
        let use_pdr = crng.chance(1, 3);
        // one third of the scripts use names that look like SMT-LIB literals (`#b01`, `#x1a`, `2.5`):
        // the writer has to quote them, and the reader must not take `|#b01|` for a literal
        let literal_names = crng.chance(1, 3);
        crate::sgen::sysgen::set_name_stress(literal_names, false);
        let sys = if use_pdr {
            gen_bounded_system(&mut rng, 6, 3, true, 8, |c| c.quoted_names = c.quoted_names || literal_names)
        } else {
            gen_system(&mut rng, 7, 3, false, |c| c.quoted_names = c.quoted_names || literal_names)
        };
        crate::sgen::sysgen::set_name_stress(false, false);
        acc.count("probe.script_with_literal_looking_names", literal_names as u64);
        let scn = McScenario {
            sys,
            cfg: McCfg {
                profile: crng.usize_below(4),
                simplify: crng.bool(),
                engine: if use_pdr {
                    Engine::Pdr { disable_cores: crng.bool() }
                } else {
                    Engine::Bmc { individually: crng.bool(), check_constraints: false, k: crng.range(1, 3) }
                },
            },
            sim_seed: crate::rng::mix(&[run_seed, 14]),
            canonical_policy: false,
            benign: false,
            faults: vec![],
            original_btor2: None,
        };
        let obs = scn.execute(false);
        acc.sim_steps += obs.tstats.events;
        // the commands of all solver processes of the run in the order they were written (what
        // patronus' replay file holds): a PDR run that restarts its solver yields several
        // sessions, each beginning with `set-logic` and declaring the same names again
        let commands: Vec<String> = obs
            .wire
            .iter()
            .filter(|w| w.cmd != "<syntax error>")
            .take(600)
            .map(|w| w.cmd.clone())
            .collect();
        acc.count("probe.script_spans_solver_restart", obs.wire.iter().take(600).any(|w| w.proc > 0) as u64);
        if !commands.is_empty() {
            let case = ReaderCase {
                truncated_tail: if crng.bool() { Some(1 + crng.usize_below(40)) } else { None },
                commands,
                seed: crate::rng::mix(&[run_seed, 141]),
            };
            acc.evaluations += 1;
            acc.distinct2.insert(conversation_shape(&obs.wire));
            acc.count("reader.scripts", 1);
            acc.count("probe.script_with_check_sat_assuming", case.commands.iter().any(|c| c.starts_with("(check-sat-assuming")) as u64);
            acc.count("probe.script_with_get_unsat_assumptions", case.commands.iter().any(|c| c.starts_with("(get-unsat-assumptions")) as u64);
            acc.count("probe.script_with_truncated_tail", case.truncated_tail.is_some() as u64);
            if let Some(v) = judge_reader(&case, acc) {
                return Some((v, case.to_json()));
            }
        }
        // (a') an incremental session script with scopes and re-declared names
        {
            let mut srng = Rng::stream(run_seed, "session-script");
            let commands = gen_session_script(&mut srng);
            let case = ReaderCase {
                truncated_tail: if srng.bool() { Some(1 + srng.usize_below(40)) } else { None },
                commands,
                seed: crate::rng::mix(&[run_seed, 142]),
            };
            acc.evaluations += 1;
            acc.count("reader.session_scripts", 1);
            let redeclared = {
                let mut seen: FxHashMap<&str, &str> = FxHashMap::default();
                let mut hit = false;
                for c in &case.commands {
                    if let Some(rest) = c.strip_prefix("(declare-const ") {
                        let (name, sort) = rest.split_at(rest.rfind(" (").or(rest.find(' ')).unwrap_or(0));
                        if let Some(prev) = seen.insert(name, sort) {
                            hit |= prev != sort;
                        }
                    }
                }
                hit
            };
            acc.count("probe.session_redeclares_name_with_other_sort", redeclared as u64);
            if let Some(v) = judge_reader(&case, acc) {
                return Some((v, case.to_json()));
            }
            // truncated commands through parse_command directly
            for _ in 0..3 {
                let c = crng.pick(&case.commands).clone();
                if c.len() > 3 {
                    let cut = 1 + crng.usize_below(c.len() - 1);
                    let t = c[..cut].to_string();
                    if !is_balanced(&t) {
                        acc.evaluations += 1;
                        if let Some(v) = judge_direct(&t, true, acc) {
                            return Some((v, json!({"kind": "direct", "text": t, "as_command": true})));
                        }
                    }
                }
            }
        }
        None
    }

    fn replay(&self, scenario: &Value, acc: &mut Acc) -> Result<Option<Violation>, String> {
        match scenario["kind"].as_str() {
            Some("value") => Ok(judge_value(&ValueCase::from_json(scenario)?, acc)),
            Some("direct") => Ok(judge_direct(
                scenario["text"].as_str().ok_or("text")?,
                scenario["as_command"].as_bool().unwrap_or(false),
                acc,
            )),
            Some("reader") => Ok(judge_reader(&ReaderCase::from_json(scenario)?, acc)),
            _ => Err("unknown scenario kind".into()),
        }
    }

    fn shrink(&self, scenario: &Value) -> Vec<Value> {
        match scenario["kind"].as_str() {
            Some("value") => match ValueCase::from_json(scenario) {
                Ok(c) => c.shrink().iter().map(|c| c.to_json()).collect(),
                Err(_) => vec![],
            },
            Some("reader") => match ReaderCase::from_json(scenario) {
                Ok(c) => {
                    let mut out = vec![];
                    // drop the tail, then drop commands (keeping declarations the rest depends on
                    // is decided by re-running: a candidate that no longer fails the same way is
                    // discarded by the minimiser)
                    if c.truncated_tail.is_some() {
                        let mut x = c.clone();
                        x.truncated_tail = None;
                        out.push(x);
                    }
                    let n = c.commands.len();
                    if n > 1 {
                        let mut x = c.clone();
                        x.commands.truncate(n / 2);
                        out.push(x);
                        let mut x = c.clone();
                        x.commands.truncate(n - 1);
                        out.push(x);
                    }
                    for i in (0..n).rev().take(60) {
                        let mut x = c.clone();
                        x.commands.remove(i);
                        out.push(x);
                    }
                    out.iter().map(|c| c.to_json()).collect()
                }
                Err(_) => vec![],
            },
            Some("direct") => {
                let t = scenario["text"].as_str().unwrap_or("").to_string();
                let as_command = scenario["as_command"].as_bool().unwrap_or(false);
                let mut out = vec![];
                if t.len() > 2 {
                    out.push(json!({"kind": "direct", "text": t[..t.len() / 2].to_string(), "as_command": as_command}));
                    out.push(json!({"kind": "direct", "text": t[..t.len() - 1].to_string(), "as_command": as_command}));
                }
                out
            }
            _ => vec![],
        }
    }

    fn meta(&self) -> EvidenceMeta {
        EvidenceMeta {
            level: "exploration",
            rule: "per run: (b) 8 random model values (Bool, bit-vectors of width 1..129 on both sides of the 64/128-bit word boundaries, arrays incl. Bool-indexed and Bool-valued) printed in every form solvers use (#b / #x, true/false, stores over a constant array in random order, shadowed stores, nested single-binding lets (also re-binding the same name), multi-binding lets, line breaks at token boundaries) and read through SolverContext::get_value over the real SmtLibSolverCtx from a scripted solver with short reads/EINTR; (c) each reply also cut at random byte offsets followed by solver exit, and unbalanced variants of the value terms through parse_expr / of commands through parse_command: must be Err; (a) the command log of one simulated BMC or PDR conversation is read back with smt::read_command through a chunking/EINTR BufRead (optionally with a truncated last command before EOF) and every command is compared with the reference solver's independent parse: kind, symbol, sort, and value of every term under 16 random assignments (patronus IR evaluated by an independent evaluator). Distinct by (sort, print form features).".into(),
            assumptions: vec![
                "scope: the 'reader inverts writer' clause is decided on the writer output that actually crosses the simulated wire (what bmc/pdr emit), not on all expressions the writer could emit (that part is a pure function and outside this technique)".into(),
                "z3's non-standard (lambda ...) array values and (_ bvN w) literals are not generated".into(),
            ],
            real_components: vec!["smt::parser (parse_get_value_response, parse_expr, parse_command, read_command, lexer)", "SmtLibSolverCtx::get_value / read_response", "mc::get_smt_value", "smt::serialize (as the producer of the wire logs)"],
            stub_components: vec!["scripted solver process (canned replies)", "pipes (short reads/writes, EINTR, EOF)", "RefSolver as independent parser"],
            distinct_measure: "distinct (sort, hex, let form, shadowing, number of stores) value shapes".into(),
            distinct2_measure: "distinct conversation shapes read back".into(),
        }
    }
}
