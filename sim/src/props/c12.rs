//! C12 — expression references are canonical and stable.
//! K logical clients with their own seeded programs of builder calls share one `Context`; the
//! scheduler decides the interleaving; a shadow structural table is the reference model.

use crate::harness::*;
use crate::rng::Rng;
use crate::runner::*;
use baa::{BitVecOps, BitVecValue};
use patronus::expr::{ArrayType, Context, Expr, ExprRef, StringRef, Type, TypeCheck};
use rustc_hash::FxHashMap;
use serde_json::{Value, json};

pub struct C12;

#[derive(Clone, Debug, PartialEq, Eq)]
pub enum Ty {
    Bv(u32),
    Arr(u32, u32),
}

#[derive(Clone, Debug, PartialEq, Eq)]
pub enum Call {
    /// symbol by name and type, through `bv_symbol` / `array_symbol` (route 0) or `string` + `symbol` (route 1)
    Sym(String, Ty, u8),
    /// literal given as bits (MSB first), built by one of several routes
    Lit(String, u8),
    /// operator over earlier results of the same client
    Un(&'static str, usize),
    Bin(&'static str, usize, usize),
    Slice(usize, u32, u32),
    Ext(bool, usize, u32),
    Ite(usize, usize, usize),
    /// compound three-operand constructors `xor3` / `majority`
    Tri(&'static str, usize, usize, usize),
    /// `zero_array` of the given (index width, data width)
    ZeroArr(u32, u32),
    ArrConst(usize, u32),
    ArrStore(usize, usize, usize),
    ArrRead(usize, usize),
    /// `lit(Value::Array)` of a small array value: (index width, default bits, entries)
    ArrLit(u32, String, Vec<(String, String)>),
    Str(String),
    True,
    False,
    /// n fresh insertions (forces growth / rehash of the tables)
    Burst(u32),
}

const UN_OPS: &[&str] = &["not", "negate"];
const BIN_SAME: &[&str] = &[
    "and", "or", "xor", "add", "sub", "mul", "div", "signed_div", "signed_mod", "signed_remainder",
    "remainder", "shift_left", "shift_right", "arithmetic_shift_right",
];
const BIN_CMP: &[&str] = &[
    "equal", "greater", "greater_signed", "greater_or_equal", "greater_or_equal_signed",
    // a compound constructor (builds `not(equal(a, b))`): only repeatability and injectivity of
    // whatever it returns are checked, not its shape
    "distinct",
];

fn static_name(n: &str) -> &'static str {
    for s in UN_OPS.iter().chain(BIN_SAME.iter()).chain(BIN_CMP.iter()).chain(["concat", "implies"].iter()) {
        if *s == n {
            return s;
        }
    }
    "?"
}

pub fn call_to_json(c: &Call) -> Value {
    match c {
        Call::Sym(n, t, r) => json!(["sym", n, ty_json(t), r]),
        Call::Lit(b, r) => json!(["lit", b, r]),
        Call::Un(o, a) => json!(["un", o, a]),
        Call::Bin(o, a, b) => json!(["bin", o, a, b]),
        Call::Slice(a, h, l) => json!(["slice", a, h, l]),
        Call::Ext(s, a, k) => json!(["ext", s, a, k]),
        Call::Ite(c, a, b) => json!(["ite", c, a, b]),
        Call::Tri(o, a, b, c) => json!(["tri", o, a, b, c]),
        Call::ZeroArr(i, d) => json!(["zero_array", i, d]),
        Call::ArrConst(a, iw) => json!(["arr_const", a, iw]),
        Call::ArrStore(a, i, d) => json!(["arr_store", a, i, d]),
        Call::ArrRead(a, i) => json!(["arr_read", a, i]),
        Call::ArrLit(iw, d, es) => json!(["arr_lit", iw, d, es.iter().map(|(i, v)| json!([i, v])).collect::<Vec<_>>()]),
        Call::Str(s) => json!(["str", s]),
        Call::True => json!(["true"]),
        Call::False => json!(["false"]),
        Call::Burst(n) => json!(["burst", n]),
    }
}

fn ty_json(t: &Ty) -> Value {
    match t {
        Ty::Bv(w) => json!([w]),
        Ty::Arr(i, d) => json!([i, d]),
    }
}

pub fn call_from_json(v: &Value) -> Result<Call, String> {
    let u = |i: usize| v[i].as_u64().map(|x| x as usize).ok_or(format!("arg {i}"));
    let s = |i: usize| v[i].as_str().map(|x| x.to_string()).ok_or(format!("arg {i}"));
    Ok(match v[0].as_str().ok_or("call kind")? {
        "sym" => {
            let t = v[2].as_array().ok_or("ty")?;
            let ty = if t.len() == 1 {
                Ty::Bv(t[0].as_u64().unwrap() as u32)
            } else {
                Ty::Arr(t[0].as_u64().unwrap() as u32, t[1].as_u64().unwrap() as u32)
            };
            Call::Sym(s(1)?, ty, u(3)? as u8)
        }
        "lit" => Call::Lit(s(1)?, u(2)? as u8),
        "un" => Call::Un(static_name(&s(1)?), u(2)?),
        "bin" => Call::Bin(static_name(&s(1)?), u(2)?, u(3)?),
        "slice" => Call::Slice(u(1)?, u(2)? as u32, u(3)? as u32),
        "ext" => Call::Ext(v[1].as_bool().ok_or("signed")?, u(2)?, u(3)? as u32),
        "ite" => Call::Ite(u(1)?, u(2)?, u(3)?),
        "tri" => Call::Tri(if s(1)? == "xor3" { "xor3" } else { "majority" }, u(2)?, u(3)?, u(4)?),
        "zero_array" => Call::ZeroArr(u(1)? as u32, u(2)? as u32),
        "arr_const" => Call::ArrConst(u(1)?, u(2)? as u32),
        "arr_store" => Call::ArrStore(u(1)?, u(2)?, u(3)?),
        "arr_read" => Call::ArrRead(u(1)?, u(2)?),
        "arr_lit" => Call::ArrLit(
            u(1)? as u32,
            s(2)?,
            v[3].as_array()
                .ok_or("entries")?
                .iter()
                .map(|e| (e[0].as_str().unwrap().to_string(), e[1].as_str().unwrap().to_string()))
                .collect(),
        ),
        "str" => Call::Str(s(1)?),
        "true" => Call::True,
        "false" => Call::False,
        "burst" => Call::Burst(u(1)? as u32),
        o => return Err(format!("unknown call {o}")),
    })
}

/// structural key of a node (children by reference)
#[derive(Clone, Debug, PartialEq, Eq, Hash)]
enum Key {
    Sym(String, Ty2),
    Lit(u32, String),
    Op(String, Vec<u32>, Vec<u32>),
}

#[derive(Clone, Debug, PartialEq, Eq, Hash)]
enum Ty2 {
    Bv(u32),
    Arr(u32, u32),
}

fn refnum(e: ExprRef) -> u32 {
    usize::from(e) as u32
}

/// builds a literal of the given bits through one of several computation routes
pub fn build_literal(ctx: &mut Context, bits: &str, route: u8) -> ExprRef {
    let w = bits.len() as u32;
    let direct = BitVecValue::from_bit_str(bits).unwrap();
    match route % 12 {
        0 => ctx.bv_lit(&direct),
        1 if w <= 128 => {
            let v = u128::from_str_radix(bits, 2).unwrap();
            ctx.bit_vec_val(v, w)
        }
        2 => {
            // x + 0, computed with baa arithmetic
            let z = BitVecValue::zero(w);
            let v = direct.add(&z);
            ctx.bv_lit(&v)
        }
        3 => {
            // not(not(x))
            let v = direct.not().not();
            ctx.bv_lit(&v)
        }
        4 if w >= 2 => {
            // concat of the two halves
            let lo_w = w / 2;
            let hi = BitVecValue::from_bit_str(&bits[..(w - lo_w) as usize]).unwrap();
            let lo = BitVecValue::from_bit_str(&bits[(w - lo_w) as usize..]).unwrap();
            let v = hi.concat(&lo);
            ctx.bv_lit(&v)
        }
        5 => {
            // zero extend then slice back
            let v = direct.zero_extend(7).slice(w - 1, 0);
            ctx.bv_lit(&v)
        }
        6 => {
            // (x - 1) + 1 with wrap-around
            let one = BitVecValue::from_u64(1, w);
            let v = direct.sub(&one).add(&one);
            ctx.bv_lit(&v)
        }
        7 => {
            // sign extend then slice back; via `lit(Value)`
            let v = direct.sign_extend(3).slice(w - 1, 0);
            ctx.lit(baa::Value::BitVec(v))
        }
        // the same routes through the `Builder` wrapper handed out by `Context::build`
        9 => {
            if w <= 128 && w % 2 == 0 {
                let v = u128::from_str_radix(bits, 2).unwrap();
                ctx.build(|b| b.bit_vec_val(v, w))
            } else {
                ctx.build(|b| b.bv_lit(&direct))
            }
        }
        10 | 11 => {
            let all = |c: char| bits.chars().all(|x| x == c);
            let is_one = bits[..bits.len() - 1].chars().all(|c| c == '0') && bits.ends_with('1');
            if w == 1 && route % 12 == 11 {
                if bits == "1" { ctx.build(|b| b.get_true()) } else { ctx.build(|b| b.get_false()) }
            } else if all('0') {
                ctx.build(|b| b.zero(w))
            } else if all('1') {
                ctx.build(|b| b.ones(w))
            } else if is_one {
                ctx.build(|b| b.one(w))
            } else {
                ctx.build(|b| b.bv_lit(&direct))
            }
        }
        _ => {
            // special constructors where they apply
            if bits.chars().all(|c| c == '0') {
                ctx.zero(w)
            } else if bits.chars().all(|c| c == '1') {
                ctx.ones(w)
            } else if bits[..bits.len() - 1].chars().all(|c| c == '0') && bits.ends_with('1') {
                ctx.one(w)
            } else {
                ctx.bv_lit(&direct)
            }
        }
    }
}

struct Shadow {
    by_key: FxHashMap<Key, u32>,
    by_ref: FxHashMap<u32, Key>,
    strings: FxHashMap<String, StringRef>,
    string_refs: FxHashMap<StringRef, String>,
    /// every issued ref with the key it must keep denoting
    issued: Vec<(ExprRef, Key)>,
}

fn readback_key(ctx: &Context, e: ExprRef) -> Key {
    let children = |v: &[ExprRef]| -> Vec<u32> { v.iter().map(|c| refnum(*c)).collect() };
    match &ctx[e] {
        Expr::BVSymbol { name, width } => Key::Sym(ctx[*name].clone(), Ty2::Bv(*width)),
        Expr::ArraySymbol {
            name,
            index_width,
            data_width,
        } => Key::Sym(ctx[*name].clone(), Ty2::Arr(*index_width, *data_width)),
        Expr::BVLiteral(v) => {
            let r = v.get(ctx);
            Key::Lit(r.width(), r.to_bit_str())
        }
        Expr::BVZeroExt { e, by, width } => Key::Op("zext".into(), children(&[*e]), vec![*by, *width]),
        Expr::BVSignExt { e, by, width } => Key::Op("sext".into(), children(&[*e]), vec![*by, *width]),
        Expr::BVSlice { e, hi, lo } => Key::Op("slice".into(), children(&[*e]), vec![*hi, *lo]),
        Expr::BVNot(a, w) => Key::Op("not".into(), children(&[*a]), vec![*w]),
        Expr::BVNegate(a, w) => Key::Op("negate".into(), children(&[*a]), vec![*w]),
        Expr::BVEqual(a, b) => Key::Op("equal".into(), children(&[*a, *b]), vec![]),
        Expr::BVImplies(a, b) => Key::Op("implies".into(), children(&[*a, *b]), vec![]),
        Expr::BVGreater(a, b) => Key::Op("greater".into(), children(&[*a, *b]), vec![]),
        Expr::BVGreaterSigned(a, b, w) => Key::Op("greater_signed".into(), children(&[*a, *b]), vec![*w]),
        Expr::BVGreaterEqual(a, b) => Key::Op("greater_or_equal".into(), children(&[*a, *b]), vec![]),
        Expr::BVGreaterEqualSigned(a, b, w) => Key::Op("greater_or_equal_signed".into(), children(&[*a, *b]), vec![*w]),
        Expr::BVConcat(a, b, w) => Key::Op("concat".into(), children(&[*a, *b]), vec![*w]),
        Expr::BVAnd(a, b, w) => Key::Op("and".into(), children(&[*a, *b]), vec![*w]),
        Expr::BVOr(a, b, w) => Key::Op("or".into(), children(&[*a, *b]), vec![*w]),
        Expr::BVXor(a, b, w) => Key::Op("xor".into(), children(&[*a, *b]), vec![*w]),
        Expr::BVShiftLeft(a, b, w) => Key::Op("shift_left".into(), children(&[*a, *b]), vec![*w]),
        Expr::BVArithmeticShiftRight(a, b, w) => Key::Op("arithmetic_shift_right".into(), children(&[*a, *b]), vec![*w]),
        Expr::BVShiftRight(a, b, w) => Key::Op("shift_right".into(), children(&[*a, *b]), vec![*w]),
        Expr::BVAdd(a, b, w) => Key::Op("add".into(), children(&[*a, *b]), vec![*w]),
        Expr::BVMul(a, b, w) => Key::Op("mul".into(), children(&[*a, *b]), vec![*w]),
        Expr::BVSignedDiv(a, b, w) => Key::Op("signed_div".into(), children(&[*a, *b]), vec![*w]),
        Expr::BVUnsignedDiv(a, b, w) => Key::Op("div".into(), children(&[*a, *b]), vec![*w]),
        Expr::BVSignedMod(a, b, w) => Key::Op("signed_mod".into(), children(&[*a, *b]), vec![*w]),
        Expr::BVSignedRem(a, b, w) => Key::Op("signed_remainder".into(), children(&[*a, *b]), vec![*w]),
        Expr::BVUnsignedRem(a, b, w) => Key::Op("remainder".into(), children(&[*a, *b]), vec![*w]),
        Expr::BVSub(a, b, w) => Key::Op("sub".into(), children(&[*a, *b]), vec![*w]),
        Expr::BVArrayRead { array, index, width } => Key::Op("arr_read".into(), children(&[*array, *index]), vec![*width]),
        Expr::BVIte { cond, tru, fals } => Key::Op("ite".into(), children(&[*cond, *tru, *fals]), vec![]),
        Expr::ArrayConstant {
            e,
            index_width,
            data_width,
        } => Key::Op("arr_const".into(), children(&[*e]), vec![*index_width, *data_width]),
        Expr::ArrayEqual(a, b) => Key::Op("arr_equal".into(), children(&[*a, *b]), vec![]),
        Expr::ArrayStore { array, index, data } => Key::Op("arr_store".into(), children(&[*array, *index, *data]), vec![]),
        Expr::ArrayIte { cond, tru, fals } => Key::Op("arr_ite".into(), children(&[*cond, *tru, *fals]), vec![]),
    }
}

#[derive(Clone, Debug)]
pub struct Programs {
    pub clients: Vec<Vec<Call>>,
    /// the interleaving: sequence of client indices (a client with no calls left is skipped)
    pub schedule: Vec<u8>,
}

fn gen_bits(rng: &mut Rng, w: u32) -> String {
    match rng.below(7) {
        0 => "0".repeat(w as usize),
        1 => format!("{}1", "0".repeat(w as usize - 1)),
        2 => "1".repeat(w as usize),
        3 => {
            let p = rng.below(w as u64) as usize;
            (0..w as usize).map(|i| if i == p { '1' } else { '0' }).collect()
        }
        _ => (0..w).map(|_| if rng.bool() { '1' } else { '0' }).collect(),
    }
}

thread_local! {
    /// narrow mode: mostly 1..4 bit values (many more rewrite rules apply there)
    static NARROW: std::cell::Cell<bool> = const { std::cell::Cell::new(false) };
}

pub fn set_narrow_widths(on: bool) {
    NARROW.with(|n| n.set(on));
}

fn pick_width(rng: &mut Rng) -> u32 {
    if NARROW.with(|n| n.get()) {
        *rng.pick(&[1u32, 1, 1, 1, 2, 2, 3, 4, 4, 8, 33, 65])
    } else {
        *rng.pick(&[1u32, 1, 2, 3, 4, 8, 8, 16, 31, 32, 33, 63, 64, 65, 127, 128, 129, 200])
    }
}

/// a statically typed client program
pub fn gen_program(rng: &mut Rng, n: usize, burst: bool) -> Vec<Call> {
    let mut calls: Vec<Call> = vec![];
    let mut types: Vec<Option<Ty>> = vec![];
    // incl. names that differ only in surrounding white space or case
    let names = ["a", "b", "c", "x", "y", "mem", "a b", "s@0", "_0", " a", "a ", "mem\t", "A", "", "a\u{301}"];
    let find = |types: &Vec<Option<Ty>>, rng: &mut Rng, pred: &dyn Fn(&Ty) -> bool| -> Option<usize> {
        let c: Vec<usize> = types
            .iter()
            .enumerate()
            .filter(|(_, t)| t.as_ref().map(pred).unwrap_or(false))
            .map(|(i, _)| i)
            .collect();
        if c.is_empty() { None } else { Some(*rng.pick(&c)) }
    };
    for step in 0..n {
        let r = rng.below(26);
        let (call, ty): (Call, Option<Ty>) = match r {
            0 | 1 => {
                let ty = if rng.chance(1, 4) {
                    Ty::Arr(*rng.pick(&[1u32, 2, 4, 8]), *rng.pick(&[1u32, 4, 8, 32]))
                } else {
                    Ty::Bv(pick_width(rng))
                };
                (Call::Sym(rng.pick(&names).to_string(), ty.clone(), rng.below(2) as u8), Some(ty))
            }
            2..=5 => {
                let w = pick_width(rng);
                (Call::Lit(gen_bits(rng, w), rng.below(12) as u8), Some(Ty::Bv(w)))
            }
            6 => (Call::Str(rng.pick(&names).to_string()), None),
            7 => (if rng.bool() { Call::True } else { Call::False }, Some(Ty::Bv(1))),
            8 if burst && step == n / 2 => (Call::Burst(10_000 + rng.below(60_000) as u32), None),
            8 | 9 => match find(&types, rng, &|t| matches!(t, Ty::Bv(_))) {
                Some(a) => (Call::Un(*rng.pick(UN_OPS), a), types[a].clone()),
                None => continue,
            },
            10..=13 => match find(&types, rng, &|t| matches!(t, Ty::Bv(_))) {
                Some(a) => {
                    let ta = types[a].clone().unwrap();
                    match find(&types, rng, &|t| *t == ta) {
                        Some(b) => {
                            if rng.chance(1, 3) {
                                (Call::Bin(*rng.pick(BIN_CMP), a, b), Some(Ty::Bv(1)))
                            } else {
                                (Call::Bin(*rng.pick(BIN_SAME), a, b), Some(ta))
                            }
                        }
                        None => continue,
                    }
                }
                None => continue,
            },
            14 => match (find(&types, rng, &|t| matches!(t, Ty::Bv(_))), find(&types, rng, &|t| matches!(t, Ty::Bv(_)))) {
                (Some(a), Some(b)) => {
                    let (Some(Ty::Bv(wa)), Some(Ty::Bv(wb))) = (types[a].clone(), types[b].clone()) else { continue };
                    if wa + wb > 400 {
                        continue;
                    }
                    (Call::Bin("concat", a, b), Some(Ty::Bv(wa + wb)))
                }
                _ => continue,
            },
            15 | 16 => match find(&types, rng, &|t| matches!(t, Ty::Bv(_))) {
                Some(a) => {
                    let Some(Ty::Bv(w)) = types[a].clone() else { continue };
                    // full-width slices (a documented normalisation) on purpose now and then
                    let (hi, lo) = if rng.chance(1, 4) {
                        (w - 1, 0)
                    } else {
                        let hi = rng.below(w as u64) as u32;
                        (hi, rng.below(hi as u64 + 1) as u32)
                    };
                    (Call::Slice(a, hi, lo), Some(Ty::Bv(hi - lo + 1)))
                }
                None => continue,
            },
            17 => match find(&types, rng, &|t| matches!(t, Ty::Bv(_))) {
                Some(a) => {
                    let Some(Ty::Bv(w)) = types[a].clone() else { continue };
                    let by = *rng.pick(&[0u32, 0, 1, 3, 8, 64]);
                    (Call::Ext(rng.bool(), a, by), Some(Ty::Bv(w + by)))
                }
                None => continue,
            },
            18 => match find(&types, rng, &|t| *t == Ty::Bv(1)) {
                Some(c) => match find(&types, rng, &|_| true) {
                    Some(a) => {
                        let ta = types[a].clone().unwrap();
                        match find(&types, rng, &|t| *t == ta) {
                            Some(b) => (Call::Ite(c, a, b), Some(ta)),
                            None => continue,
                        }
                    }
                    None => continue,
                },
                None => continue,
            },
            // equality of two arrays of the same type (ArrayEqual)
            19 if rng.chance(1, 3) => match find(&types, rng, &|t| matches!(t, Ty::Arr(..))) {
                Some(a) => {
                    let ta = types[a].clone().unwrap();
                    match find(&types, rng, &|t| *t == ta) {
                        Some(b) => (Call::Bin(if rng.chance(1, 3) { "distinct" } else { "equal" }, a, b), Some(Ty::Bv(1))),
                        None => continue,
                    }
                }
                None => continue,
            },
            19 => match find(&types, rng, &|t| *t == Ty::Bv(1)) {
                Some(a) => match find(&types, rng, &|t| *t == Ty::Bv(1)) {
                    Some(b) => (Call::Bin("implies", a, b), Some(Ty::Bv(1))),
                    None => continue,
                },
                None => continue,
            },
            20 => match find(&types, rng, &|t| matches!(t, Ty::Bv(w) if *w <= 64)) {
                Some(a) => {
                    let Some(Ty::Bv(w)) = types[a].clone() else { continue };
                    let iw = *rng.pick(&[1u32, 2, 4, 8]);
                    (Call::ArrConst(a, iw), Some(Ty::Arr(iw, w)))
                }
                None => continue,
            },
            21 => match find(&types, rng, &|t| matches!(t, Ty::Arr(..))) {
                Some(a) => {
                    let Some(Ty::Arr(iw, dw)) = types[a].clone() else { continue };
                    match (find(&types, rng, &|t| *t == Ty::Bv(iw)), find(&types, rng, &|t| *t == Ty::Bv(dw))) {
                        (Some(i), Some(d)) => (Call::ArrStore(a, i, d), Some(Ty::Arr(iw, dw))),
                        _ => continue,
                    }
                }
                None => continue,
            },
            22 => match find(&types, rng, &|t| matches!(t, Ty::Arr(..))) {
                Some(a) => {
                    let Some(Ty::Arr(iw, dw)) = types[a].clone() else { continue };
                    match find(&types, rng, &|t| *t == Ty::Bv(iw)) {
                        Some(i) => (Call::ArrRead(a, i), Some(Ty::Bv(dw))),
                        None => continue,
                    }
                }
                None => continue,
            },
            24 => match find(&types, rng, &|t| matches!(t, Ty::Bv(_))) {
                Some(a) => {
                    let ta = types[a].clone().unwrap();
                    match (find(&types, rng, &|t| *t == ta), find(&types, rng, &|t| *t == ta)) {
                        (Some(b), Some(c)) => (Call::Tri(if rng.bool() { "xor3" } else { "majority" }, a, b, c), Some(ta)),
                        _ => continue,
                    }
                }
                None => continue,
            },
            25 => {
                let (iw, dw) = (*rng.pick(&[1u32, 2, 4, 8]), *rng.pick(&[1u32, 4, 8, 32, 65]));
                (Call::ZeroArr(iw, dw), Some(Ty::Arr(iw, dw)))
            }
            _ => {
                let iw = *rng.pick(&[1u32, 2, 4]);
                let dw = *rng.pick(&[1u32, 4, 8]);
                let mut entries: Vec<(String, String)> = vec![];
                // at most one non-default entry: `Context::lit(Value::Array)` folds over
                // baa's SparseArrayValue::non_default_entries(), a std HashMap iteration whose
                // order is documented as non-deterministic; with two or more entries the same
                // array value legitimately yields structurally different store chains
                for _ in 0..rng.below(2) {
                    let i = gen_bits(rng, iw);
                    if !entries.iter().any(|e| e.0 == i) {
                        entries.push((i, gen_bits(rng, dw)));
                    }
                }
                (Call::ArrLit(iw, gen_bits(rng, dw), entries), Some(Ty::Arr(iw, dw)))
            }
        };
        calls.push(call);
        types.push(ty);
    }
    calls
}

fn programs_to_json(p: &Programs) -> Value {
    json!({"workload": {"kind": "ops",
        "clients": p.clients.iter().map(|c| c.iter().map(call_to_json).collect::<Vec<_>>()).collect::<Vec<_>>(),
        "schedule": p.schedule}})
}

fn programs_from_json(v: &Value) -> Result<Programs, String> {
    let mut clients = vec![];
    for c in v["workload"]["clients"].as_array().ok_or("clients")? {
        let mut calls = vec![];
        for call in c.as_array().ok_or("calls")? {
            calls.push(call_from_json(call)?);
        }
        clients.push(calls);
    }
    Ok(Programs {
        clients,
        schedule: v["workload"]["schedule"]
            .as_array()
            .ok_or("schedule")?
            .iter()
            .map(|x| x.as_u64().unwrap_or(0) as u8)
            .collect(),
    })
}

fn mk(class: &str, site: &str, detail: String) -> Violation {
    Violation {
        property: "C12".into(),
        oracle: "C12/shadow".into(),
        class: class.into(),
        site: site.into(),
        detail,
    }
}

/// Executes the programs under the given schedule on a fresh context. Returns per client the
/// results (None for calls without an expression result) or the first violation.
fn execute(p: &Programs, n_calls: &mut u64, probes: &mut FxHashMap<&'static str, u64>) -> Result<Vec<Vec<Option<ExprRef>>>, Violation> {
    let mut ctx = Context::default();
    let t0 = ctx.get_true();
    let f0 = ctx.get_false();
    let mut sh = Shadow {
        by_key: FxHashMap::default(),
        by_ref: FxHashMap::default(),
        strings: FxHashMap::default(),
        string_refs: FxHashMap::default(),
        issued: vec![],
    };
    let mut results: Vec<Vec<Option<ExprRef>>> = p.clients.iter().map(|_| vec![]).collect();
    let mut pcs: Vec<usize> = vec![0; p.clients.len()];
    let mut sched_pos = 0usize;
    let mut total_calls = 0usize;
    let mut inserted = 0u64;
    let mut burst_counter = 0u64;
    let mut rebuilds_after_burst = 0u64;
    let mut burst_done = false;

    let sweep = |ctx: &Context, sh: &Shadow| -> Option<Violation> {
        for (e, k) in &sh.issued {
            let now = readback_key(ctx, *e);
            if now != *k {
                return Some(mk(
                    "RefChangedMeaning",
                    "sweep",
                    format!("reference {} denoted {k:?} when it was issued and denotes {now:?} now", refnum(*e)),
                ));
            }
        }
        if ctx.get_true() != t0 || ctx.get_false() != f0 {
            return Some(mk("TrueFalseMoved", "sweep", "get_true/get_false changed".into()));
        }
        None
    };

    loop {
        // pick the next client with work, following the schedule (round-robin once it is exhausted)
        let remaining: Vec<usize> = (0..p.clients.len()).filter(|c| pcs[*c] < p.clients[*c].len()).collect();
        if remaining.is_empty() {
            break;
        }
        let want = if sched_pos < p.schedule.len() {
            p.schedule[sched_pos] as usize % p.clients.len()
        } else {
            sched_pos % p.clients.len()
        };
        sched_pos += 1;
        let c = if remaining.contains(&want) {
            want
        } else {
            remaining[want % remaining.len()]
        };
        let call = &p.clients[c][pcs[c]];
        pcs[c] += 1;
        total_calls += 1;
        *n_calls += 1;
        let res = &results[c];
        let arg = |i: usize| -> ExprRef { res[i].expect("typed program refers to an expression result") };
        // perform the call; `expect_key` is the structural key the result must have
        // (None: documented normalisation returning the operand, or no expression result)
        let mut expect_same_as: Option<ExprRef> = None;
        let via_builder = crate::rng::fnv1a(format!("{call:?}@{}", pcs[c]).as_bytes()) % 3 == 0;
        let out: Option<ExprRef> = match call {
            Call::Sym(name, ty, _) if via_builder => Some(match ty {
                Ty::Bv(w) => ctx.build(|b| b.bv_symbol(name, *w)),
                Ty::Arr(i, d) => {
                    let sr = ctx.string(name.as_str().into());
                    ctx.build(|b| {
                        b.symbol(
                            sr,
                            Type::Array(ArrayType {
                                index_width: *i,
                                data_width: *d,
                            }),
                        )
                    })
                }
            }),
            Call::Sym(name, ty, route) => Some(match (ty, route % 2) {
                (Ty::Bv(w), 0) => ctx.bv_symbol(name, *w),
                (Ty::Arr(i, d), 0) => ctx.array_symbol(name, *i, *d),
                (Ty::Bv(w), _) => {
                    let s = ctx.string(name.as_str().into());
                    ctx.symbol(s, Type::BV(*w))
                }
                (Ty::Arr(i, d), _) => {
                    let s = ctx.string(name.as_str().into());
                    ctx.symbol(
                        s,
                        Type::Array(ArrayType {
                            index_width: *i,
                            data_width: *d,
                        }),
                    )
                }
            }),
            Call::Lit(bits, route) => Some(build_literal(&mut ctx, bits, *route)),
            Call::Slice(a, hi, lo) if via_builder => {
                let x = arg(*a);
                let w = x.get_bv_type(&ctx).unwrap();
                if *lo == 0 && *hi + 1 == w {
                    expect_same_as = Some(x);
                }
                Some(ctx.build(|b| b.slice(x, *hi, *lo)))
            }
            Call::Ext(signed, a, by) if via_builder => {
                let x = arg(*a);
                if *by == 0 {
                    expect_same_as = Some(x);
                }
                Some(match (pcs[c] % 2 == 0, *signed) {
                    (true, _) => ctx.build(|mut b| b.extend(x, *by, *signed)),
                    (false, true) => ctx.build(|b| b.sign_extend(x, *by)),
                    (false, false) => ctx.build(|b| b.zero_extend(x, *by)),
                })
            }
            Call::Tri(op, a, b, cc) => {
                let (x, y, z) = (arg(*a), arg(*b), arg(*cc));
                // compound constructors: the documented composition, built node by node
                let composed = if *op == "xor3" {
                    let t = ctx.xor(x, y);
                    ctx.xor(t, z)
                } else {
                    let ab = ctx.and(x, y);
                    let ac = ctx.and(x, z);
                    let bc = ctx.and(y, z);
                    let t = ctx.or(ab, ac);
                    ctx.or(t, bc)
                };
                expect_same_as = Some(composed);
                Some(match (via_builder, *op) {
                    (true, "xor3") => ctx.build(|mut b| b.xor3(x, y, z)),
                    (true, _) => ctx.build(|mut b| b.majority(x, y, z)),
                    (false, "xor3") => ctx.xor3(x, y, z),
                    (false, _) => ctx.majority(x, y, z),
                })
            }
            Call::ZeroArr(iw, dw) => {
                let zero = ctx.zero(*dw);
                expect_same_as = Some(ctx.array_const(zero, *iw));
                let tpe = ArrayType {
                    index_width: *iw,
                    data_width: *dw,
                };
                Some(if via_builder { ctx.build(|b| b.zero_array(tpe)) } else { ctx.zero_array(tpe) })
            }
            // a third of the operator calls go through `Context::build` (the `Builder` wrapper,
            // a second public route to every constructor): same structure, so same reference
            Call::Un(op, a) if via_builder => {
                let x = arg(*a);
                Some(ctx.build(|b| match *op {
                    "not" => b.not(x),
                    _ => b.negate(x),
                }))
            }
            // the compound constructor `distinct` (bit-vector and array operands) against its
            // documented composition not(equal(a, b)), built from the primitives
            Call::Bin("distinct", a, b) if !via_builder => {
                let (x, y) = (arg(*a), arg(*b));
                let eq = ctx.equal(x, y);
                expect_same_as = Some(ctx.not(eq));
                Some(ctx.distinct(x, y))
            }
            Call::Bin(op, a, b) if via_builder => {
                let (x, y) = (arg(*a), arg(*b));
                Some(ctx.build(|c| match *op {
                    "and" => c.and(x, y),
                    "or" => c.or(x, y),
                    "xor" => c.xor(x, y),
                    "add" => c.add(x, y),
                    "sub" => c.sub(x, y),
                    "mul" => c.mul(x, y),
                    "div" => c.div(x, y),
                    "signed_div" => c.signed_div(x, y),
                    "signed_mod" => c.signed_mod(x, y),
                    "signed_remainder" => c.signed_remainder(x, y),
                    "remainder" => c.remainder(x, y),
                    "shift_left" => c.shift_left(x, y),
                    "shift_right" => c.shift_right(x, y),
                    "arithmetic_shift_right" => c.arithmetic_shift_right(x, y),
                    "equal" => c.equal(x, y),
                    "distinct" => {
                        let e = c.equal(x, y);
                        c.not(e)
                    }
                    "greater" => c.greater(x, y),
                    "greater_signed" => c.greater_signed(x, y),
                    "greater_or_equal" => c.greater_or_equal(x, y),
                    "greater_or_equal_signed" => c.greater_or_equal_signed(x, y),
                    "concat" => c.concat(x, y),
                    "implies" => c.implies(x, y),
                    other => panic!("HARNESS: unknown op {other}"),
                }))
            }
            Call::Ite(cnd, a, b) if via_builder => {
                let (cn, x, y) = (arg(*cnd), arg(*a), arg(*b));
                Some(ctx.build(|c| c.ite(cn, x, y)))
            }
            Call::ArrConst(a, iw) if via_builder => {
                let x = arg(*a);
                Some(ctx.build(|c| c.array_const(x, *iw)))
            }
            Call::ArrStore(a, i, d) if via_builder => {
                let (x, y, z) = (arg(*a), arg(*i), arg(*d));
                Some(ctx.build(|c| c.array_store(x, y, z)))
            }
            Call::ArrRead(a, i) if via_builder => {
                let (x, y) = (arg(*a), arg(*i));
                Some(ctx.build(|c| c.array_read(x, y)))
            }
            Call::Un(op, a) => Some(match *op {
                "not" => ctx.not(arg(*a)),
                _ => ctx.negate(arg(*a)),
            }),
            Call::Bin(op, a, b) => {
                let (x, y) = (arg(*a), arg(*b));
                Some(match *op {
                    "and" => ctx.and(x, y),
                    "or" => ctx.or(x, y),
                    "xor" => ctx.xor(x, y),
                    "add" => ctx.add(x, y),
                    "sub" => ctx.sub(x, y),
                    "mul" => ctx.mul(x, y),
                    "div" => ctx.div(x, y),
                    "signed_div" => ctx.signed_div(x, y),
                    "signed_mod" => ctx.signed_mod(x, y),
                    "signed_remainder" => ctx.signed_remainder(x, y),
                    "remainder" => ctx.remainder(x, y),
                    "shift_left" => ctx.shift_left(x, y),
                    "shift_right" => ctx.shift_right(x, y),
                    "arithmetic_shift_right" => ctx.arithmetic_shift_right(x, y),
                    "equal" => ctx.equal(x, y),
                    "distinct" => ctx.distinct(x, y),
                    "greater" => ctx.greater(x, y),
                    "greater_signed" => ctx.greater_signed(x, y),
                    "greater_or_equal" => ctx.greater_or_equal(x, y),
                    "greater_or_equal_signed" => ctx.greater_or_equal_signed(x, y),
                    "concat" => ctx.concat(x, y),
                    "implies" => ctx.implies(x, y),
                    other => panic!("HARNESS: unknown op {other}"),
                })
            }
            Call::Slice(a, hi, lo) => {
                let x = arg(*a);
                let w = x.get_bv_type(&ctx).unwrap();
                if *lo == 0 && *hi + 1 == w {
                    expect_same_as = Some(x);
                }
                Some(ctx.slice(x, *hi, *lo))
            }
            Call::Ext(signed, a, by) => {
                let x = arg(*a);
                if *by == 0 {
                    expect_same_as = Some(x);
                }
                Some(if pcs[c] % 2 == 0 {
                    ctx.extend(x, *by, *signed)
                } else if *signed {
                    ctx.sign_extend(x, *by)
                } else {
                    ctx.zero_extend(x, *by)
                })
            }
            Call::Ite(cnd, a, b) => Some(ctx.ite(arg(*cnd), arg(*a), arg(*b))),
            Call::ArrConst(a, iw) => Some(ctx.array_const(arg(*a), *iw)),
            Call::ArrStore(a, i, d) => Some(ctx.array_store(arg(*a), arg(*i), arg(*d))),
            Call::ArrRead(a, i) => Some(ctx.array_read(arg(*a), arg(*i))),
            Call::ArrLit(iw, default, entries) => {
                let mut arr = baa::ArrayValue::new_sparse(*iw, &BitVecValue::from_bit_str(default).unwrap());
                use baa::ArrayMutOps;
                for (i, d) in entries {
                    arr.store(&BitVecValue::from_bit_str(i).unwrap(), &BitVecValue::from_bit_str(d).unwrap());
                }
                Some(ctx.lit(baa::Value::Array(arr)))
            }
            Call::Str(s) => {
                let r = ctx.string(s.as_str().into());
                if let Some(prev) = sh.strings.get(s) {
                    if *prev != r {
                        return Err(mk("StringDuplicated", "string", format!("string {s:?} was interned twice")));
                    }
                } else {
                    if let Some(other) = sh.string_refs.get(&r) {
                        return Err(mk("StringRefShared", "string", format!("strings {s:?} and {other:?} share a reference")));
                    }
                    sh.strings.insert(s.clone(), r);
                    sh.string_refs.insert(r, s.clone());
                }
                if ctx[r] != *s {
                    return Err(mk("StringReadBack", "string", format!("string {s:?} reads back as {:?}", &ctx[r])));
                }
                None
            }
            Call::True => Some(ctx.get_true()),
            Call::False => Some(ctx.get_false()),
            Call::Burst(n) => {
                // fresh, pairwise distinct nodes: symbols, literals and an add chain
                let x = ctx.bv_symbol("burst_base", 32);
                let mut acc = x;
                for k in 0..*n {
                    burst_counter += 1;
                    match k % 3 {
                        0 => {
                            ctx.bv_symbol(&format!("burst_{c}_{burst_counter}"), 1 + (k % 64));
                        }
                        1 => {
                            let l = ctx.bit_vec_val(burst_counter as u128 + 1000, 32u32);
                            acc = ctx.add(acc, l);
                        }
                        _ => {
                            ctx.bit_vec_val(burst_counter as u128 * 7919, 40 + (k % 90));
                        }
                    }
                    inserted += 1;
                }
                burst_done = true;
                None
            }
        };
        if let (Some(e), Call::Lit(bits, _)) = (out, call) {
            // `is_zero` reads the literal back through the value interner
            let want = bits.chars().all(|c| c == '0');
            if ctx.is_zero(e) != want {
                return Err(mk("WrongNode", "is_zero", format!("is_zero of the literal {bits} answers {}", !want)));
            }
        }
        if let Some(e) = out {
            if let Some(same) = expect_same_as {
                if e != same && matches!(call, Call::Tri(..) | Call::ZeroArr(..) | Call::Bin("distinct", _, _)) {
                    return Err(mk(
                        "WrongNode",
                        "compound-constructor",
                        format!(
                            "{call:?} returned reference {} ({:?}), but its documented composition built from the primitive constructors is reference {} ({:?})",
                            refnum(e),
                            readback_key(&ctx, e),
                            refnum(same),
                            readback_key(&ctx, same)
                        ),
                    ));
                }
                if e != same {
                    return Err(mk(
                        "NormalisationBroken",
                        "slice-or-extend",
                        format!("{call:?} should return its operand (documented normalisation) but returned another reference"),
                    ));
                }
            } else {
                let key = readback_key(&ctx, e);
                // the node read back must be what was asked for
                let asked_ok = match (call, &key) {
                    (Call::Sym(n, Ty::Bv(w), _), Key::Sym(kn, Ty2::Bv(kw))) => n == kn && w == kw,
                    (Call::Sym(n, Ty::Arr(i, d), _), Key::Sym(kn, Ty2::Arr(ki, kd))) => n == kn && i == ki && d == kd,
                    (Call::Lit(bits, _), Key::Lit(w, b)) => *w as usize == bits.len() && b == bits,
                    (Call::True, Key::Lit(1, b)) => b == "1",
                    (Call::False, Key::Lit(1, b)) => b == "0",
                    (Call::Un(op, a), Key::Op(kop, ch, _)) => kop == op && *ch == vec![refnum(arg(*a))],
                    (Call::Bin("distinct", _, _), Key::Op(..)) => true,
                    (Call::Bin(op, a, b), Key::Op(kop, ch, _)) => {
                        let expect = if *op == "equal" && kop == "arr_equal" { "arr_equal" } else { op };
                        kop == expect && *ch == vec![refnum(arg(*a)), refnum(arg(*b))]
                    }
                    (Call::Slice(a, hi, lo), Key::Op(kop, ch, p)) => kop == "slice" && *ch == vec![refnum(arg(*a))] && *p == vec![*hi, *lo],
                    (Call::Ext(s, a, by), Key::Op(kop, ch, p)) => {
                        kop == (if *s { "sext" } else { "zext" }) && *ch == vec![refnum(arg(*a))] && p[0] == *by
                    }
                    (Call::Ite(cn, a, b), Key::Op(kop, ch, _)) => {
                        (kop == "ite" || kop == "arr_ite") && *ch == vec![refnum(arg(*cn)), refnum(arg(*a)), refnum(arg(*b))]
                    }
                    (Call::ArrConst(a, iw), Key::Op(kop, ch, p)) => kop == "arr_const" && *ch == vec![refnum(arg(*a))] && p[0] == *iw,
                    (Call::ArrStore(a, i, d), Key::Op(kop, ch, _)) => kop == "arr_store" && *ch == vec![refnum(arg(*a)), refnum(arg(*i)), refnum(arg(*d))],
                    (Call::ArrRead(a, i), Key::Op(kop, ch, _)) => kop == "arr_read" && *ch == vec![refnum(arg(*a)), refnum(arg(*i))],
                    (Call::ArrLit(..), Key::Op(kop, _, _)) => kop == "arr_store" || kop == "arr_const",
                    _ => false,
                };
                if !asked_ok {
                    return Err(mk(
                        "WrongNode",
                        "readback",
                        format!("{call:?} returned reference {} which reads back as {key:?}", refnum(e)),
                    ));
                }
                // type and name are what was asked for
                if let Call::Sym(n, _, _) = call {
                    if ctx.get_symbol_name(e) != Some(n.as_str()) {
                        return Err(mk("WrongName", "readback", format!("{call:?} reads back with name {:?}", ctx.get_symbol_name(e))));
                    }
                }
                match sh.by_key.get(&key) {
                    Some(prev) => {
                        if *prev != refnum(e) {
                            return Err(mk(
                                "Duplicated",
                                match &key { Key::Lit(..) => "literal", Key::Sym(..) => "symbol", Key::Op(..) => "operator" },
                                format!("{key:?} was built before as reference {prev} and now as {} ({call:?})", refnum(e)),
                            ));
                        }
                        if burst_done {
                            rebuilds_after_burst += 1;
                        }
                    }
                    None => {
                        if let Some(other) = sh.by_ref.get(&refnum(e)) {
                            return Err(mk(
                                "Conflated",
                                "reference",
                                format!("structurally different expressions {other:?} and {key:?} share reference {}", refnum(e)),
                            ));
                        }
                        sh.by_key.insert(key.clone(), refnum(e));
                        sh.by_ref.insert(refnum(e), key.clone());
                        sh.issued.push((e, key));
                        inserted += 1;
                    }
                }
            }
        }
        results[c].push(out);
        if total_calls % 256 == 0 {
            if let Some(v) = sweep(&ctx, &sh) {
                return Err(v);
            }
        }
    }
    if let Some(v) = sweep(&ctx, &sh) {
        return Err(v);
    }
    // every route of building 1-bit one / zero is the constant true / false
    for route in 0..12u8 {
        if build_literal(&mut ctx, "1", route) != t0 || build_literal(&mut ctx, "0", route) != f0 {
            return Err(mk("TrueFalseNotCanonical", "literal", format!("1-bit literal built by route {route} is not get_true/get_false")));
        }
    }
    *probes.entry("probe.rebuild_after_burst_of_10k_plus").or_insert(0) += rebuilds_after_burst;
    *probes.entry("nodes_inserted").or_insert(0) += inserted;
    Ok(results)
}

/// canonical labelling of the equality pattern among all results (client-major order)
fn equality_pattern(results: &[Vec<Option<ExprRef>>]) -> Vec<u32> {
    let mut first: FxHashMap<ExprRef, u32> = FxHashMap::default();
    let mut out = vec![];
    let mut n = 0u32;
    for c in results {
        for r in c {
            match r {
                None => out.push(u32::MAX),
                Some(e) => {
                    let l = *first.entry(*e).or_insert(n);
                    out.push(l);
                }
            }
            n += 1;
        }
    }
    out
}

fn judge(p: &Programs, acc: &mut Acc) -> Option<Violation> {
    let mut n_calls = 0u64;
    let mut probes: FxHashMap<&'static str, u64> = FxHashMap::default();
    let mut schedules = vec![p.schedule.clone()];
    // three more interleavings of the same client programs
    let mut srng = Rng::new(crate::rng::fnv1a(format!("{:?}", p.schedule).as_bytes()));
    let total: usize = p.clients.iter().map(|c| c.len()).sum();
    for k in 0..3 {
        schedules.push(match k {
            0 => vec![], // round robin
            1 => {
                // client after client
                let mut s = vec![];
                for (c, calls) in p.clients.iter().enumerate() {
                    s.extend(std::iter::repeat_n(c as u8, calls.len()));
                }
                s
            }
            _ => (0..total).map(|_| srng.below(p.clients.len() as u64) as u8).collect(),
        });
    }
    let mut patterns: Vec<Vec<u32>> = vec![];
    let mut result: Option<Violation> = None;
    for (si, sched) in schedules.iter().enumerate() {
        let prog = Programs {
            clients: p.clients.clone(),
            schedule: sched.clone(),
        };
        let out = guarded(|| match execute(&prog, &mut n_calls, &mut probes) {
            Ok(r) => Ok(Ok(r)),
            Err(v) => Ok(Err(v)),
        });
        match out {
            Outcome::Ok(Ok(r)) => patterns.push(equality_pattern(&r)),
            Outcome::Ok(Err(v)) => {
                result = Some(v);
                break;
            }
            Outcome::Panic { loc, msg } => {
                result = Some(mk("Panic", &loc, format!("builder call panicked at {loc}: {msg}")));
                break;
            }
            other => {
                result = Some(mk(other.class(), "context", other.describe()));
                break;
            }
        }
        if si > 0 && patterns[si] != patterns[0] {
            let pos = patterns[si].iter().zip(patterns[0].iter()).position(|(a, b)| a != b).unwrap_or(0);
            result = Some(Violation {
                property: "C12".into(),
                oracle: "C12/schedule".into(),
                class: "InterleavingDependent".into(),
                site: "equality-pattern".into(),
                detail: format!(
                    "which results are the same reference depends on the interleaving of the clients' calls (first difference at result #{pos})"
                ),
            });
            break;
        }
    }
    acc.sim_steps += n_calls;
    acc.count("builder_calls", n_calls);
    for (k, v) in probes {
        acc.count(k, v);
    }
    match result {
        Some(v) if filter_known(acc, &v) => None,
        other => other,
    }
}

impl Property for C12 {
    fn id(&self) -> &'static str {
        "C12"
    }
    fn runs(&self, tier: Tier) -> usize {
        match tier {
            Tier::Quick => 30_000,
            Tier::Thorough => 2_000_000,
        }
    }

    fn run(&self, run_seed: u64, tier: Tier, acc: &mut Acc) -> Option<(Violation, Value)> {
        let mut rng = Rng::stream(run_seed, "workload");
        let k = rng.range(2, 4) as usize;
        let burst_run = rng.chance(1, if tier == Tier::Thorough { 20 } else { 60 });
        let mut clients = vec![];
        for c in 0..k {
            let n = rng.range(10, 120) as usize;
            clients.push(gen_program(&mut rng, n, burst_run && c == 0));
        }
        let total: usize = clients.iter().map(|c| c.len()).sum();
        let mut srng = Rng::stream(run_seed, "sched");
        let schedule: Vec<u8> = (0..total).map(|_| srng.below(k as u64) as u8).collect();
        let p = Programs { clients, schedule };
        acc.evaluations += 1;
        acc.distinct.insert(crate::rng::mix(&[
            crate::rng::fnv1a(format!("{:?}", &p.schedule[..p.schedule.len().min(64)]).as_bytes()),
            crate::rng::fnv1a(format!("{:?}", p.clients).as_bytes()),
        ]));
        acc.distinct2.insert(crate::rng::fnv1a(format!("{:?}", p.clients).as_bytes()));
        acc.count("probe.run_with_burst", burst_run as u64);
        let wide_routes = p
            .clients
            .iter()
            .flatten()
            .filter(|c| matches!(c, Call::Lit(b, _) if b.len() > 64))
            .count();
        acc.count("probe.wide_literal_calls", wide_routes as u64);
        if acc.samples.is_empty() {
            acc.samples.push(json!({
                "clients": p.clients.iter().map(|c| c.iter().take(12).map(call_to_json).collect::<Vec<_>>()).collect::<Vec<_>>(),
                "schedule_prefix": p.schedule.iter().take(32).collect::<Vec<_>>(),
            }));
        }
        judge(&p, acc).map(|v| (v, programs_to_json(&p)))
    }

    fn replay(&self, scenario: &Value, acc: &mut Acc) -> Result<Option<Violation>, String> {
        Ok(judge(&programs_from_json(scenario)?, acc))
    }

    fn shrink(&self, scenario: &Value) -> Vec<Value> {
        let Ok(p) = programs_from_json(scenario) else {
            return vec![];
        };
        let mut out = vec![];
        // drop a whole client, truncate programs (a typed program stays typed when its tail is cut)
        if p.clients.len() > 1 {
            for c in 0..p.clients.len() {
                let mut q = p.clone();
                q.clients.remove(c);
                out.push(q);
            }
        }
        for c in 0..p.clients.len() {
            let n = p.clients[c].len();
            if n > 1 {
                for keep in [n / 2, n - 1] {
                    let mut q = p.clone();
                    q.clients[c].truncate(keep.max(1));
                    out.push(q);
                }
            }
            // replace bursts by nothing
            for (i, call) in p.clients[c].iter().enumerate() {
                if let Call::Burst(n) = call {
                    if *n > 10 {
                        let mut q = p.clone();
                        q.clients[c][i] = Call::Burst(n / 10);
                        out.push(q);
                    }
                }
            }
        }
        if !p.schedule.is_empty() {
            let mut q = p.clone();
            q.schedule.clear();
            out.push(q);
        }
        out.iter().map(programs_to_json).collect()
    }

    fn meta(&self) -> EvidenceMeta {
        EvidenceMeta {
            level: "exploration",
            rule: "2..4 logical clients, each with a seeded, statically typed program of 10..120 builder calls (symbols by two routes, strings, literals of widths 1..200 built by 9 computation routes — bit_vec_val, bv_lit of values computed with baa add/sub/not/concat/extend+slice, zero/one/ones, lit(Value) — every operator incl. division and arrays, full-width slices and extensions by 0, lit(Value::Array), get_true/get_false, bursts of 10^4..7*10^4 fresh insertions) run on one shared Context under a seeded interleaving and under three further interleavings. Reference model: shadow structural table keyed by (operator, child refs, widths, literal (width, bits), symbol (name, sort)); after every call: same key -> same ref, new key -> unused ref, node read back through ctx[ref] is what was asked for; full sweep of all issued refs every 256 calls and at the end; equality pattern among all results identical under the 4 interleavings. Distinct by (interleaving prefix, client programs).".into(),
            assumptions: vec![
                "Context needs &mut, so clients cannot run in parallel: the interleaving of whole calls is the only schedule there is".into(),
                "the two documented normalisations (full-width slice, extension by 0 return the operand) are modelled".into(),
            ],
            real_components: vec!["expr::Context (strings, expression and value interning, all builder methods)", "baa value arithmetic as producer of literal values"],
            stub_components: vec!["none (scheduler of logical clients + shadow table)"],
            distinct_measure: "distinct (first 64 scheduling decisions, client programs) pairs".into(),
            distinct2_measure: "distinct client program sets".into(),
        }
    }
}


/// performs one builder call without any checking (used by other properties to build pools)
pub fn apply_call_plain(ctx: &mut Context, call: &Call, res: &[Option<ExprRef>]) -> Option<ExprRef> {
    let arg = |i: usize| -> ExprRef { res[i].expect("typed program refers to an expression result") };
    match call {
        Call::Sym(name, ty, _) => Some(match ty {
            Ty::Bv(w) => ctx.bv_symbol(name, *w),
            Ty::Arr(i, d) => ctx.array_symbol(name, *i, *d),
        }),
        Call::Lit(bits, route) => Some(build_literal(ctx, bits, *route)),
        Call::Un(op, a) => Some(match *op {
            "not" => ctx.not(arg(*a)),
            _ => ctx.negate(arg(*a)),
        }),
        Call::Bin(op, a, b) => {
            let (x, y) = (arg(*a), arg(*b));
            Some(match *op {
                "and" => ctx.and(x, y),
                "or" => ctx.or(x, y),
                "xor" => ctx.xor(x, y),
                "add" => ctx.add(x, y),
                "sub" => ctx.sub(x, y),
                "mul" => ctx.mul(x, y),
                "div" => ctx.div(x, y),
                "signed_div" => ctx.signed_div(x, y),
                "signed_mod" => ctx.signed_mod(x, y),
                "signed_remainder" => ctx.signed_remainder(x, y),
                "remainder" => ctx.remainder(x, y),
                "shift_left" => ctx.shift_left(x, y),
                "shift_right" => ctx.shift_right(x, y),
                "arithmetic_shift_right" => ctx.arithmetic_shift_right(x, y),
                "equal" => ctx.equal(x, y),
                "distinct" => ctx.distinct(x, y),
                "greater" => ctx.greater(x, y),
                "greater_signed" => ctx.greater_signed(x, y),
                "greater_or_equal" => ctx.greater_or_equal(x, y),
                "greater_or_equal_signed" => ctx.greater_or_equal_signed(x, y),
                "concat" => ctx.concat(x, y),
                "implies" => ctx.implies(x, y),
                other => panic!("HARNESS: unknown op {other}"),
            })
        }
        Call::Slice(a, hi, lo) => Some(ctx.slice(arg(*a), *hi, *lo)),
        Call::Ext(signed, a, by) => Some(if *signed {
            ctx.sign_extend(arg(*a), *by)
        } else {
            ctx.zero_extend(arg(*a), *by)
        }),
        Call::Ite(c, a, b) => Some(ctx.ite(arg(*c), arg(*a), arg(*b))),
        Call::Tri(op, a, b, c) => Some(if *op == "xor3" { ctx.xor3(arg(*a), arg(*b), arg(*c)) } else { ctx.majority(arg(*a), arg(*b), arg(*c)) }),
        Call::ZeroArr(iw, dw) => Some(ctx.zero_array(ArrayType {
            index_width: *iw,
            data_width: *dw,
        })),
        Call::ArrConst(a, iw) => Some(ctx.array_const(arg(*a), *iw)),
        Call::ArrStore(a, i, d) => Some(ctx.array_store(arg(*a), arg(*i), arg(*d))),
        Call::ArrRead(a, i) => Some(ctx.array_read(arg(*a), arg(*i))),
        Call::ArrLit(iw, default, entries) => {
            let mut arr = baa::ArrayValue::new_sparse(*iw, &BitVecValue::from_bit_str(default).unwrap());
            use baa::ArrayMutOps;
            for (i, d) in entries {
                arr.store(&BitVecValue::from_bit_str(i).unwrap(), &BitVecValue::from_bit_str(d).unwrap());
            }
            Some(ctx.lit(baa::Value::Array(arr)))
        }
        Call::Str(_) | Call::Burst(_) => None,
        Call::True => Some(ctx.get_true()),
        Call::False => Some(ctx.get_false()),
    }
}
