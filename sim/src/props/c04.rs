//! C04 — the unrolled SMT encoding is well-formed and faithful to the system.
//! Oracle 1 (wire monitor): the strict reference solver accepts every command of every
//! conversation. Oracle 2 (faithfulness): under random concrete executions of the system the
//! per-step symbols evaluate to the values the signals have in that step.

use super::mc_common::*;
use crate::faults::FaultPlan;
use crate::harness::Outcome;
use crate::mcrun::*;
use crate::refsem::json::{sys_from_json, sys_to_json};
use crate::refsem::shrink;
use crate::refsem::sys::*;
use crate::refsolver::Policy;
use crate::refsolver::term::Sort;
use crate::rng::Rng;
use crate::runner::*;
use crate::transport::*;
use crate::val::*;
use rustc_hash::FxHashMap;
use serde_json::{Value, json};

pub struct C04;

#[derive(Clone, Debug)]
pub struct EncScenario {
    pub sys: Sys,
    pub profile: usize,
    pub simplify: bool,
    pub entry: u64,
    pub unrolls: u64,
    pub sim_seed: u64,
    pub benign: bool,
    /// the encoder object was used before: init_at(entry0) + unrolls0 x unroll against a first
    /// solver process, then the solver was restarted
    pub prior: Option<(u64, u64)>,
}

impl EncScenario {
    fn to_json(&self) -> Value {
        json!({
            "kind": "encoding",
            "workload": {"kind": "system", "system": sys_to_json(&self.sys)},
            "config": {"profile": PROFILE_NAMES[self.profile], "simplify": self.simplify,
                       "entry_step": self.entry, "unrolls": self.unrolls,
                       "prior_use": self.prior.map(|(e, u)| json!({"entry_step": e, "unrolls": u}))},
            "sim_seed": format!("{:#x}", self.sim_seed),
            "benign_transport": self.benign,
        })
    }
    fn from_json(v: &Value) -> Result<Self, String> {
        let pname = v["config"]["profile"].as_str().ok_or("profile")?;
        Ok(EncScenario {
            sys: sys_from_json(&v["workload"]["system"])?,
            profile: PROFILE_NAMES.iter().position(|p| *p == pname).ok_or("profile")?,
            simplify: v["config"]["simplify"].as_bool().ok_or("simplify")?,
            entry: v["config"]["entry_step"].as_u64().ok_or("entry")?,
            unrolls: v["config"]["unrolls"].as_u64().ok_or("unrolls")?,
            sim_seed: u64::from_str_radix(
                v["sim_seed"].as_str().ok_or("sim_seed")?.trim_start_matches("0x"),
                16,
            )
            .map_err(|e| e.to_string())?,
            benign: v["benign_transport"].as_bool().unwrap_or(true),
            prior: match (v["config"]["prior_use"]["entry_step"].as_u64(), v["config"]["prior_use"]["unrolls"].as_u64()) {
                (Some(e), Some(u)) => Some((e, u)),
                _ => None,
            },
        })
    }
}

fn random_val(rng: &mut Rng, ty: Ty) -> Val {
    match ty {
        Ty::Bv(w) => Val::B(Bv::new(w, rng.bits_shaped(w))),
        Ty::Arr(i, d) => {
            let elems: Vec<u128> = (0..(1u32 << i)).map(|_| rng.bits_shaped(d)).collect();
            Val::A(Arr::from_elements(i, d, &elems))
        }
    }
}

struct RefExec {
    states: Vec<Vec<Val>>,
    inputs: Vec<Vec<Val>>,
    nodes: Vec<Vec<Val>>,
}

/// a concrete execution in model-checking semantics (states without next are free in every step)
fn reference_execution(sys: &Sys, from_init: bool, steps: u64, rng: &mut Rng) -> RefExec {
    let mut ex = RefExec {
        states: vec![],
        inputs: vec![],
        nodes: vec![],
    };
    let mut states: Vec<Val> = sys.states.iter().map(|s| random_val(rng, s.ty)).collect();
    for k in 0..=steps {
        let inputs: Vec<Val> = sys.inputs.iter().map(|s| random_val(rng, s.1)).collect();
        if k == 0 && from_init {
            sys.apply_init(&mut states, &inputs);
        }
        let env = StepEnv {
            inputs: inputs.clone(),
            states: states.clone(),
        };
        let vals = sys.eval_all(&env);
        let nx = sys.next_states(&vals);
        ex.states.push(states.clone());
        ex.inputs.push(inputs);
        ex.nodes.push(vals);
        states = nx
            .into_iter()
            .enumerate()
            .map(|(i, v)| v.unwrap_or_else(|| random_val(rng, sys.states[i].ty)))
            .collect();
    }
    ex
}

fn val_fits(v: &Val, s: Sort) -> bool {
    match (v, s) {
        (Val::B(b), Sort::Bool) => b.w == 1,
        (Val::B(b), Sort::Bv(w)) => b.w == w,
        (Val::A(a), Sort::Arr(i, d)) => a.iw == i.width() && a.dw == d.width(),
        _ => false,
    }
}

/// With `simplify = true` the encoder was given the simplified system. A faithfulness mismatch
/// against the system as generated that disappears without simplification is caused by
/// simplification (C01/C11, not claimed here): counted, not reported.
fn judge_encoding(scn: &EncScenario, acc: &mut Acc) -> Option<Violation> {
    let v = judge_encoding_raw(scn, acc)?;
    if scn.simplify && v.oracle == "C04/faithful" {
        let mut plain = scn.clone();
        plain.simplify = false;
        let mut scratch = Acc::default();
        if judge_encoding_raw(&plain, &mut scratch).is_none() {
            acc.count("note.discrepancy_attributed_to_simplification", 1);
            return None;
        }
    }
    Some(v)
}

fn judge_encoding_raw(scn: &EncScenario, acc: &mut Acc) -> Option<Violation> {
    let tcfg = TransportCfg {
        benign: scn.benign,
        ..Default::default()
    };
    let policy = Policy::random(&mut Rng::stream(scn.sim_seed, "policy"));
    let world = World::new(scn.sim_seed, tcfg, policy, FaultPlan::none());
    let btor2 = scn.sys.to_btor2();
    let outcome = run_encoding(&world, &btor2, scn.profile, scn.simplify, scn.entry, scn.unrolls, scn.prior);
    let w = world.borrow();
    acc.sim_steps += w.stats.events;
    acc.log_hash = acc.log_hash.rotate_left(9) ^ w.log_hash;
    acc.count("transport.commands", w.stats.commands);
    acc.count("fault.benign.short_write", w.stats.short_writes);
    acc.count("fault.benign.eintr_write", w.stats.eintr_write);
    let mk = |oracle: &str, class: &str, site: String, detail: String| Violation {
        property: "C04".into(),
        oracle: oracle.into(),
        class: class.into(),
        site,
        detail: format!(
            "{detail} [profile={} simplify={} entry={} unrolls={}{}]",
            PROFILE_NAMES[scn.profile],
            scn.simplify,
            scn.entry,
            scn.unrolls,
            match scn.prior {
                Some((e, u)) => format!(" encoder used before: init_at({e}), {u} x unroll, solver restart"),
                None => String::new(),
            }
        ),
    };
    if let Some(p) = w.procs.first() {
        if let Some(f) = &p.solver.stub_failure {
            acc.stub_failure = Some(f.clone());
            return None;
        }
    }
    // oracle 1: wire monitor
    if let Some(e) = w.wire.iter().find(|e| e.solver_error.is_some()) {
        let msg = e.solver_error.clone().unwrap();
        if categorize_solver_error(&msg) == "as-const-rejected" {
            // `(as const …)` is an extension outside the standard; whether a given solver has it
            // is a capability question (C02), not one of well-formedness
            acc.count("skipped.const_array_extension_rejected_by_profile", 1);
            return None;
        }
        let clash = if categorize_solver_error(&msg) == "redefinition" && crate::sgen::sysgen::has_clash_names(&scn.sys) {
            ":input-uses-generated-looking-name"
        } else {
            ""
        };
        let v = mk(
            "C04/wire",
            "Rejected",
            format!("solver-rejects:{}{clash}", categorize_solver_error(&msg)),
            format!("a standard-conforming solver rejects `{}`: {msg}", e.cmd),
        );
        return if filter_known(acc, &v) { None } else { Some(v) };
    }
    let info = match outcome {
        Outcome::Ok(i) => i,
        Outcome::Err(e) if e.starts_with("HARNESS") => {
            acc.stub_failure = Some(e);
            return None;
        }
        other => {
            let (class, site) = match &other {
                Outcome::Panic { loc, .. } => ("Panic", loc.clone()),
                o => (o.class(), "encoding-driver".to_string()),
            };
            let v = mk(
                "C04/wire",
                class,
                site,
                format!("unrolling did not complete: {}", other.describe()),
            );
            return if filter_known(acc, &v) { None } else { Some(v) };
        }
    };
    if info.parsed.state_names.len() != scn.sys.states.len()
        || info.parsed.input_names.len() != scn.sys.inputs.len()
    {
        acc.stub_failure = Some(format!(
            "HARNESS: parsed system has states {:?} inputs {:?}, abstract system has a different number",
            info.parsed.state_names, info.parsed.input_names
        ));
        return None;
    }
    // names as patronus holds them (the btor2 reader may rename a state after an aliasing label)
    let state_names = &info.parsed.state_names;
    let input_names = &info.parsed.input_names;
    // oracle 2: faithfulness under random executions
    let solver = &w.procs.last().unwrap().solver;
    let mut erng = Rng::stream(scn.sim_seed, "executions");
    for _ in 0..8 {
        let ex = reference_execution(&scn.sys, scn.entry == 0, scn.unrolls, &mut erng);
        // values of the symbols that stand for states and inputs: keyed by the symbol that
        // get_signal_at returns (the encoding is free to choose names, e.g. an output label that
        // aliases an input)
        let mut by_name: FxHashMap<String, Val> = FxHashMap::default();
        for sig in &info.signals {
            let k = (sig.step - scn.entry) as usize;
            let v = match sig.kind {
                SigKind::State => ex.states[k][sig.index].clone(),
                SigKind::Input => ex.inputs[k][sig.index].clone(),
                _ => continue,
            };
            if let SigSym::Symbol(name) = &sig.sym {
                by_name.entry(name.clone()).or_insert(v);
            }
        }
        let _ = (state_names, input_names);
        let unknown: std::cell::RefCell<Option<String>> = std::cell::RefCell::new(None);
        let env = |name: &str, sort: Sort| -> Val {
            match by_name.get(name) {
                Some(v) if val_fits(v, sort) => v.clone(),
                Some(v) => {
                    *unknown.borrow_mut() = Some(format!(
                        "symbol {name} is declared with sort {} but the signal has value {}",
                        sort.show(),
                        v.show()
                    ));
                    default_of(sort)
                }
                None => {
                    *unknown.borrow_mut() =
                        Some(format!("script declares a symbol `{name}` that is no state or input of any step"));
                    default_of(sort)
                }
            }
        };
        let mut memo = FxHashMap::default();
        for sig in &info.signals {
            let k = (sig.step - scn.entry) as usize;
            let expected: Val = match sig.kind {
                SigKind::State => ex.states[k][sig.index].clone(),
                SigKind::Input => ex.inputs[k][sig.index].clone(),
                SigKind::Constraint => Sys::node_val(&ex.nodes[k], scn.sys.constraints[sig.index]),
                SigKind::Bad => Sys::node_val(&ex.nodes[k], scn.sys.bads[sig.index]),
            };
            let got: Val = match &sig.sym {
                SigSym::Literal(b) => Val::B(Bv::from_bool(*b)),
                SigSym::Symbol(name) => match solver.eval_symbol_under(name, &env, &mut memo) {
                    Some(v) => v,
                    None => {
                        let v = mk(
                            "C04/faithful",
                            "MissingSymbol",
                            format!("{:?}", sig.kind),
                            format!(
                                "get_signal_at({:?} #{}, step {}) names `{name}`, which the script neither declares nor defines",
                                sig.kind, sig.index, sig.step
                            ),
                        );
                        return if filter_known(acc, &v) { None } else { Some(v) };
                    }
                },
                SigSym::Other(s) => {
                    let v = mk(
                        "C04/faithful",
                        "NotASymbol",
                        format!("{:?}", sig.kind),
                        format!("get_signal_at returned the expression {s} instead of a per-step symbol"),
                    );
                    return if filter_known(acc, &v) { None } else { Some(v) };
                }
            };
            if let Some(u) = unknown.borrow().clone() {
                let v = mk("C04/faithful", "ForeignDeclaration", "declared-symbol".into(), u);
                return if filter_known(acc, &v) { None } else { Some(v) };
            }
            acc.count("faithfulness.signal_values_compared", 1);
            if got != expected {
                let v = mk(
                    "C04/faithful",
                    "WrongValue",
                    format!("{:?}", sig.kind),
                    format!(
                        "{:?} #{} at step {} evaluates to {} in the script but is {} in the execution of the system",
                        sig.kind,
                        sig.index,
                        sig.step,
                        got.show(),
                        expected.show()
                    ),
                );
                return if filter_known(acc, &v) { None } else { Some(v) };
            }
        }
    }
    None
}

fn default_of(sort: Sort) -> Val {
    match sort {
        Sort::Bool => Val::B(Bv::new(1, 0)),
        Sort::Bv(w) => Val::B(Bv::new(w, 0)),
        Sort::Arr(i, d) => Val::A(Arr::constant(i.width(), d.width(), 0)),
    }
}

/// wire monitor over a complete model-checking conversation
fn judge_mc(scn: &McScenario, obs: &McObservation, acc: &mut Acc) -> Option<Violation> {
    if let Some(e) = obs.first_solver_error() {
        let msg = e.solver_error.clone().unwrap();
        if msg.contains("STUB-LIMIT") {
            return None;
        }
        if categorize_solver_error(&msg) == "as-const-rejected" {
            acc.count("skipped.const_array_extension_rejected_by_profile", 1);
            return None;
        }
        let v = Violation {
            property: "C04".into(),
            oracle: "C04/wire".into(),
            class: "Rejected".into(),
            site: format!("solver-rejects:{}", categorize_solver_error(&msg)),
            detail: format!(
                "a standard-conforming solver rejects `{}`: {msg} [{}]",
                e.cmd,
                scn.cfg.describe()
            ),
        };
        return if filter_known(acc, &v) { None } else { Some(v) };
    }
    None
}

fn use_class_probe(sys: &Sys) -> bool {
    // some non-leaf node is used by an init and by a next expression
    let mut in_init = vec![false; sys.nodes.len()];
    let mut in_next = vec![false; sys.nodes.len()];
    fn mark(sys: &Sys, n: usize, m: &mut Vec<bool>) {
        if m[n] {
            return;
        }
        m[n] = true;
        for a in &sys.nodes[n].args {
            mark(sys, *a, m);
        }
    }
    for st in &sys.states {
        if let Some(InitDef::Node(n, _) | InitDef::ArrayFromBv(n, _)) = &st.init {
            mark(sys, *n, &mut in_init);
        }
        if let Some((n, _)) = st.next {
            mark(sys, n, &mut in_next);
        }
    }
    (0..sys.nodes.len()).any(|n| in_init[n] && in_next[n] && !sys.nodes[n].args.is_empty())
}

impl Property for C04 {
    fn id(&self) -> &'static str {
        "C04"
    }
    fn runs(&self, tier: Tier) -> usize {
        match tier {
            Tier::Quick => 60_000,
            Tier::Thorough => 3_000_000,
        }
    }

    fn run(&self, run_seed: u64, tier: Tier, acc: &mut Acc) -> Option<(Violation, Value)> {
        let mut rng = Rng::stream(run_seed, "workload");
        let mut crng = Rng::stream(run_seed, "config");
        let (msb, mib) = match tier {
            Tier::Quick => (10, 4),
            Tier::Thorough => (14, 6),
        };
        // (a) direct driver of the unrolling API; no exhaustive oracle needed, so larger systems
        // and the init-without-next shape are allowed
        let clash = crng.chance(1, 5);
        let huge = crng.chance(1, 4);
        let sys = if huge {
            gen_huge_system(&mut rng, |c| {
                c.init_without_next = true;
                c.division = true;
            })
        } else {
            gen_system(&mut rng, msb, mib, false, |c| {
                c.init_without_next = true;
                if clash {
                    c.named_nodes = true;
                    c.clash_names = true;
                }
            })
        };
        acc.count("probe.system_with_wide_values_or_many_states", huge as u64);
        acc.count("probe.system_with_generated_looking_names", crate::sgen::sysgen::has_clash_names(&sys) as u64);
        acc.count("probe.signal_shared_by_init_and_next", use_class_probe(&sys) as u64);
        acc.count("probe.state_with_init_without_next", sys.states.iter().any(|s| s.init.is_some() && s.next.is_none()) as u64);
        for variant in 0..2u64 {
            let entry = if variant == 0 { 0 } else { *crng.pick(&[0u64, 1, 1, 2, 5]) };
            let scn = EncScenario {
                sys: sys.clone(),
                profile: crng.usize_below(4),
                simplify: crng.bool(),
                entry,
                unrolls: if crng.chance(1, 8) { crng.range(5, 12) } else { crng.range(0, 4) },
                sim_seed: crate::rng::mix(&[run_seed, 4, variant]),
                benign: true,
                // one scenario in four re-uses an encoder that has already unrolled from another
                // step against a solver process that was restarted since
                prior: if crng.chance(1, 4) { Some((*crng.pick(&[0u64, 0, 1, 3]), crng.range(0, 3))) } else { None },
            };
            acc.count("probe.encoder_reused_after_solver_restart", scn.prior.is_some() as u64);
            acc.evaluations += 1;
            acc.distinct.insert(crate::rng::mix(&[
                shape_hash(&scn.sys),
                (scn.entry > 0) as u64,
                scn.unrolls,
                scn.simplify as u64,
            ]));
            acc.count(if scn.entry == 0 { "entry.step0_with_init" } else { "entry.later_step_free_states" }, 1);
            if acc.samples.is_empty() {
                acc.samples.push(json!({"btor2": scn.sys.to_btor2(), "entry_step": scn.entry, "unrolls": scn.unrolls,
                    "profile": PROFILE_NAMES[scn.profile], "simplify": scn.simplify}));
            }
            if let Some(v) = judge_encoding(&scn, acc) {
                return Some((v, scn.to_json()));
            }
        }
        // (b) wire monitor over a whole BMC or PDR conversation of a (smaller) system
        let use_pdr = crng.chance(1, 3);
        let sys2 = if use_pdr {
            // (PDR run length grows with 2^(state bits) and has a heavy tail: 6 bits keep every
            // run far below the event budget)
            gen_bounded_system(&mut rng, 6, 3, true, 8, |_| {})
        } else {
            gen_system(&mut rng, 8, 3, false, |_| {})
        };
        let engine = if use_pdr {
            Engine::Pdr {
                disable_cores: crng.bool(),
            }
        } else {
            Engine::Bmc {
                individually: crng.bool(),
                check_constraints: false,
                k: crng.range(1, 5),
            }
        };
        let scn = McScenario {
            sys: sys2,
            cfg: McCfg {
                profile: crng.usize_below(4),
                simplify: crng.bool(),
                engine,
            },
            sim_seed: crate::rng::mix(&[run_seed, 4, 9]),
            canonical_policy: false,
            benign: true,
            faults: vec![],
            original_btor2: None,
        };
        let obs = scn.execute(false);
        obs.account(acc);
        acc.evaluations += 1;
        acc.distinct2.insert(conversation_shape(&obs.wire));
        acc.count(if use_pdr { "wire_monitor.pdr_conversations" } else { "wire_monitor.bmc_conversations" }, 1);
        acc.count("wire_monitor.commands_checked", obs.wire.len() as u64);
        if let Some(v) = judge_mc(&scn, &obs, acc) {
            let mut j = scn.to_json();
            j["kind"] = json!("mc");
            return Some((v, j));
        }
        None
    }

    fn replay(&self, scenario: &Value, acc: &mut Acc) -> Result<Option<Violation>, String> {
        if scenario["kind"].as_str() == Some("mc") {
            let scn = McScenario::from_json(scenario)?;
            let obs = scn.execute(false);
            obs.account(acc);
            Ok(judge_mc(&scn, &obs, acc))
        } else {
            let scn = EncScenario::from_json(scenario)?;
            Ok(judge_encoding(&scn, acc))
        }
    }

    fn shrink(&self, scenario: &Value) -> Vec<Value> {
        if scenario["kind"].as_str() == Some("mc") {
            return match McScenario::from_json(scenario) {
                Ok(s) => s
                    .shrink()
                    .iter()
                    .map(|s| {
                        let mut j = s.to_json();
                        j["kind"] = json!("mc");
                        j
                    })
                    .collect(),
                Err(_) => vec![],
            };
        }
        let Ok(scn) = EncScenario::from_json(scenario) else {
            return vec![];
        };
        let mut out = vec![];
        if scn.benign {
            let mut s = scn.clone();
            s.benign = false;
            out.push(s);
        }
        if scn.simplify {
            let mut s = scn.clone();
            s.simplify = false;
            out.push(s);
        }
        if scn.unrolls > 0 {
            let mut s = scn.clone();
            s.unrolls -= 1;
            out.push(s);
        }
        if scn.entry > 1 {
            let mut s = scn.clone();
            s.entry = 1;
            out.push(s);
        }
        if let Some((e, u)) = scn.prior {
            let mut s = scn.clone();
            s.prior = None;
            out.push(s);
            if u > 0 {
                let mut s = scn.clone();
                s.prior = Some((e, u - 1));
                out.push(s);
            }
        }
        for sys in shrink::candidates(&scn.sys) {
            let mut s = scn.clone();
            s.sys = sys;
            out.push(s);
        }
        out.iter().map(|s| s.to_json()).collect()
    }

    fn meta(&self) -> EvidenceMeta {
        EvidenceMeta {
            level: "exploration",
            rule: "per run: one generated system (incl. array states, states without init, init reading earlier states, init-without-next, signals shared between init/next/bad) driven through the public UnrollSmtEncoding API (new, define_header, init_at(0) or init_at(j>0), unroll x 0..4; in a quarter of the cases on an encoder object that has already been initialised at another step and unrolled against a solver process restarted since) over the real SmtLibSolverCtx to the strict reference solver, twice; plus one whole BMC or PDR conversation of a second system. Oracle 1: the reference solver (strict SMT-LIB 2.6 scoping and sorting, Bool != BitVec 1) accepts every command. Oracle 2: under 8 random concrete executions the symbols returned by get_signal_at evaluate (out of band, in the reference solver's own term evaluator) to the values of the signals in that step. Distinct by (system shape, entry kind, depth, simplified).".into(),
            assumptions: vec![
                "the reference solver's acceptance = acceptance by a standard-conforming solver; two deliberate relaxations (non-literal assumptions, unknown options) and get-value allowed after declarations".into(),
                "executions use model-checking semantics: a state without next is unconstrained in every step".into(),
            ],
            real_components: vec!["btor2::parse_str", "simplify_expressions", "mc::UnrollSmtEncoding", "system::analysis::analyze_for_serialization", "smt::serialize", "SmtLibSolverCtx", "mc::bmc", "mc::pdr"],
            stub_components: vec!["solver process (RefSolver)", "pipes and process table (transport)"],
            distinct_measure: "distinct (system shape, entry point kind, unroll depth, simplified) tuples".into(),
            distinct2_measure: "distinct whole-conversation shapes under the wire monitor".into(),
        }
    }
}
