//! C13 — simplification is a terminating, idempotent, cache-transparent canonicaliser.
//! One Context; three long-lived servers (shared sparse-cache simplifier, shared dense-cache
//! simplifier, and a fresh simplifier per request as the sequential specification); the
//! scheduler interleaves simplify requests with construction of new pool members.

use super::c12::{Call, apply_call_plain, call_from_json, call_to_json, gen_program};
use crate::harness::*;
use crate::rng::Rng;
use crate::runner::*;
use patronus::expr::{Context, DenseExprMetaData, ExprRef, SerializableIrNode, Simplifier, SparseExprMap};
use serde_json::{Value, json};

pub struct C13;

const FUEL: u64 = 1_000_000;

#[derive(Clone, Debug, PartialEq, Eq)]
pub enum Step {
    Build(Call),
    /// simplify request for the n-th pool member (index into the sequence of Build steps)
    Req(usize),
    /// one very large expression: n leaves `implies(x, not(equal(v, i)))` (each needs two rewrite
    /// rounds) chained by 1-bit comparisons; pushes two pool members, the chain up to its middle
    /// and the whole chain. Reaches what small pools cannot: tens of thousands of rewrite rounds
    /// and cache entries within one call
    BuildChain(u32),
}

#[derive(Clone, Debug)]
pub struct SimpScenario {
    pub steps: Vec<Step>,
}

impl SimpScenario {
    fn to_json(&self) -> Value {
        json!({"workload": {"kind": "ops", "steps": self.steps.iter().map(|s| match s {
            Step::Build(c) => json!(["build", call_to_json(c)]),
            Step::Req(i) => json!(["simplify", i]),
            Step::BuildChain(n) => json!(["build_chain", n]),
        }).collect::<Vec<_>>()}})
    }
    fn from_json(v: &Value) -> Result<Self, String> {
        let mut steps = vec![];
        for s in v["workload"]["steps"].as_array().ok_or("steps")? {
            steps.push(match s[0].as_str().ok_or("step")? {
                "build" => Step::Build(call_from_json(&s[1])?),
                "simplify" => Step::Req(s[1].as_u64().ok_or("idx")? as usize),
                "build_chain" => Step::BuildChain(s[1].as_u64().ok_or("n")? as u32),
                o => return Err(format!("unknown step {o}")),
            });
        }
        Ok(SimpScenario { steps })
    }
}

fn mk(class: &str, site: &str, detail: String) -> Violation {
    Violation {
        property: "C13".into(),
        oracle: "C13/servers".into(),
        class: class.into(),
        site: site.into(),
        detail,
    }
}

fn judge(scn: &SimpScenario, acc: &mut Acc) -> Option<Violation> {
    // very large expressions are named by reference: printing them is recursive in patronus
    let giant = scn.steps.iter().any(|s| matches!(s, Step::BuildChain(_)));
    let show = |ctx: &Context, e: &ExprRef| -> String {
        if giant { format!("<expression {e:?} of the chain>") } else { e.serialize_to_str(ctx) }
    };
    let mut result: Option<Violation> = None;
    let current: std::cell::RefCell<String> = std::cell::RefCell::new(String::new());
    let mut n_req = 0u64;
    let mut from_cache = 0u64;
    let mut changed = 0u64;
    let mut max_ticks = 0u64;
    let mut late_refs = 0u64;
    let mut batch_roots = 0u64;
    let out = guarded(|| {
        let mut ctx = Context::default();
        let mut pool: Vec<Option<ExprRef>> = vec![];
        let mut sparse = Simplifier::new(SparseExprMap::default());
        let mut dense = Simplifier::new(DenseExprMetaData::default());
        let mut answers: Vec<(ExprRef, ExprRef)> = vec![];
        let mut first_req_seen = false;
        let mut built_after_first_req: Vec<usize> = vec![];
        for step in &scn.steps {
            match step {
                Step::Build(call) => {
                    let r = apply_call_plain(&mut ctx, call, &pool);
                    if first_req_seen {
                        built_after_first_req.push(pool.len());
                    }
                    pool.push(r);
                }
                Step::BuildChain(n) => {
                    let x = ctx.bv_symbol("chain_x", 1);
                    let v = ctx.bv_symbol("chain_v", 32);
                    let mut acc: Option<ExprRef> = None;
                    let mut mid = None;
                    for i in 0..*n {
                        let lit = ctx.bit_vec_val(i as u128, 32u32);
                        let eq = ctx.equal(v, lit);
                        let ne = ctx.not(eq);
                        let leaf = ctx.implies(x, ne);
                        acc = Some(match acc {
                            None => leaf,
                            Some(a) => ctx.greater(a, leaf),
                        });
                        if i == *n / 2 {
                            mid = acc;
                        }
                    }
                    if first_req_seen {
                        built_after_first_req.push(pool.len());
                        built_after_first_req.push(pool.len() + 1);
                    }
                    pool.push(mid);
                    pool.push(acc);
                }
                Step::Req(i) => {
                    let Some(Some(e)) = pool.get(*i).cloned() else {
                        continue;
                    };
                    first_req_seen = true;
                    if built_after_first_req.contains(i) {
                        late_refs += 1;
                    }
                    n_req += 1;
                    *current.borrow_mut() = show(&ctx, &e);
                    patronus::verif_fuel::set_fuel(Some(FUEL));
                    let a = sparse.simplify(&mut ctx, e);
                    let t = patronus::verif_fuel::used();
                    max_ticks = max_ticks.max(t);
                    if t <= 1 {
                        from_cache += 1;
                    }
                    patronus::verif_fuel::set_fuel(Some(FUEL));
                    let b = dense.simplify(&mut ctx, e);
                    patronus::verif_fuel::set_fuel(Some(FUEL));
                    let c = Simplifier::new(SparseExprMap::default()).simplify(&mut ctx, e);
                    if a != e {
                        changed += 1;
                    }
                    if a != c {
                        result = Some(mk(
                            "CacheDependent",
                            "shared-vs-fresh",
                            format!(
                                "simplify({}) gives {} on the long-lived simplifier but {} on a fresh one",
                                show(&ctx, &e),
                                show(&ctx, &a),
                                show(&ctx, &c)
                            ),
                        ));
                        return Ok(());
                    }
                    if a != b {
                        result = Some(mk(
                            "ContainerDependent",
                            "sparse-vs-dense",
                            format!(
                                "simplify({}) gives {} with the sparse cache but {} with the dense cache",
                                show(&ctx, &e),
                                show(&ctx, &a),
                                show(&ctx, &b)
                            ),
                        ));
                        return Ok(());
                    }
                    // idempotence, on the shared and on a fresh instance
                    *current.borrow_mut() = show(&ctx, &a);
                    patronus::verif_fuel::set_fuel(Some(FUEL));
                    let a2 = sparse.simplify(&mut ctx, a);
                    patronus::verif_fuel::set_fuel(Some(FUEL));
                    let a3 = Simplifier::new(SparseExprMap::default()).simplify(&mut ctx, a);
                    patronus::verif_fuel::set_fuel(Some(FUEL));
                    let a4 = dense.simplify(&mut ctx, a);
                    if a2 != a || a3 != a || a4 != a {
                        let which = if a3 != a { a3 } else if a2 != a { a2 } else { a4 };
                        result = Some(mk(
                            "NotIdempotent",
                            if a3 != a { "fresh" } else { "shared" },
                            format!(
                                "simplify({}) = {} but simplifying that again gives {}",
                                show(&ctx, &e),
                                show(&ctx, &a),
                                show(&ctx, &which)
                            ),
                        ));
                        return Ok(());
                    }
                    answers.push((e, a));
                }
            }
        }
        // every earlier answer is re-requested at the end and must be unchanged
        for (e, a) in &answers {
            *current.borrow_mut() = show(&ctx, &e);
            patronus::verif_fuel::set_fuel(Some(FUEL));
            let again = sparse.simplify(&mut ctx, *e);
            patronus::verif_fuel::set_fuel(Some(FUEL));
            let again_d = dense.simplify(&mut ctx, *e);
            if again != *a || again_d != *a {
                result = Some(mk(
                    "AnswerChanged",
                    "re-request",
                    format!(
                        "simplify({}) first gave {} and later {}",
                        show(&ctx, &e),
                        show(&ctx, &a),
                        show(&ctx, &(if again != *a { again } else { again_d }))
                    ),
                ));
                return Ok(());
            }
        }
        // the same expressions as one batch: roots of a transition system simplified by the
        // system-level pass (one rewriting run over all roots with its own dense cache), and one
        // at a time through the convenience wrapper
        if !answers.is_empty() {
            let mut sys = patronus::system::TransitionSystem::new("batch".to_string());
            let mut roots: Vec<(ExprRef, ExprRef)> = vec![];
            for (e, a) in &answers {
                if !roots.iter().any(|r| r.0 == *e) {
                    sys.add_output(&mut ctx, format!("o{}", roots.len()).into(), *e);
                    roots.push((*e, *a));
                }
            }
            *current.borrow_mut() = format!("the batch of {} roots", roots.len());
            patronus::verif_fuel::set_fuel(Some(FUEL * roots.len() as u64));
            patronus::system::transform::simplify_expressions(&mut ctx, &mut sys);
            batch_roots = roots.len() as u64;
            for (i, (e, a)) in roots.iter().enumerate() {
                let got = sys.outputs[i].expr;
                if got != *a {
                    result = Some(mk(
                        "BatchDependent",
                        "system-pass-vs-single",
                        format!(
                            "simplify({}) gives {} on its own but {} when simplified as root #{i} of a batch of {} roots by simplify_expressions",
                            show(&ctx, &e),
                            show(&ctx, &a),
                            show(&ctx, &got),
                            roots.len()
                        ),
                    ));
                    return Ok(());
                }
            }
            for (e, a) in roots.iter().take(4) {
                *current.borrow_mut() = show(&ctx, &e);
                patronus::verif_fuel::set_fuel(Some(FUEL));
                let got = patronus::expr::simplify_single_expression(&mut ctx, *e);
                if got != *a {
                    result = Some(mk(
                        "CacheDependent",
                        "simplify_single_expression",
                        format!(
                            "simplify_single_expression({}) gives {} but a simplifier instance gives {}",
                            show(&ctx, &e),
                            show(&ctx, &got),
                            show(&ctx, &a)
                        ),
                    ));
                    return Ok(());
                }
            }
        }
        patronus::verif_fuel::set_fuel(None);
        Ok(())
    });
    patronus::verif_fuel::set_fuel(None);
    acc.count("simplify_requests", n_req);
    acc.count("probe.batch_of_roots_through_system_pass", (batch_roots >= 2) as u64);
    acc.count("probe.request_answered_from_cache", from_cache);
    acc.count("probe.request_changed_expression", changed);
    acc.count("probe.request_on_ref_created_after_the_caches", late_refs);
    acc.count("probe.request_needing_over_100_rewrite_iterations", (max_ticks > 100) as u64);
    let v = match out {
        Outcome::Ok(()) => result,
        Outcome::FuelExhausted => Some(mk(
            "NonTermination",
            "rewrite-loop",
            format!(
                "simplifying {} did not finish within {FUEL} rewrite-loop iterations",
                current.borrow()
            ),
        )),
        Outcome::Panic { loc, msg } => Some(mk(
            "Panic",
            &loc,
            format!("simplifier panicked at {loc}: {msg} while simplifying {}", current.borrow()),
        )),
        other => Some(mk(other.class(), "simplifier", other.describe())),
    };
    match v {
        Some(v) if filter_known(acc, &v) => None,
        other => other,
    }
}

/// a pool of 1-bit expressions only: every operand fits every operator
fn gen_bool_pool(rng: &mut Rng, n: usize) -> Vec<Call> {
    use super::c12::Ty;
    let mut calls = vec![
        Call::Sym("y".into(), Ty::Bv(1), 0),
        Call::Sym("z".into(), Ty::Bv(1), 0),
        Call::Sym("w".into(), Ty::Bv(1), 0),
        Call::True,
        Call::False,
    ];
    const OPS: &[&str] = &[
        "and", "or", "xor", "add", "sub", "mul", "implies", "equal", "greater", "greater_or_equal",
        "shift_left", "shift_right", "arithmetic_shift_right",
    ];
    while calls.len() < n.max(8) {
        let k = calls.len();
        // prefer recent results: deeper nests
        let pick = |rng: &mut Rng| if rng.chance(2, 3) { k - 1 - rng.usize_below(k.min(6)) } else { rng.usize_below(k) };
        let c = match rng.below(10) {
            0..=2 => Call::Un(if rng.chance(3, 4) { "not" } else { "negate" }, pick(rng)),
            3 => Call::Ite(pick(rng), pick(rng), pick(rng)),
            4 => Call::Lit(if rng.bool() { "1".into() } else { "0".into() }, rng.below(9) as u8),
            _ => Call::Bin(*rng.pick(OPS), pick(rng), pick(rng)),
        };
        calls.push(c);
    }
    calls
}

impl Property for C13 {
    fn id(&self) -> &'static str {
        "C13"
    }
    fn runs(&self, tier: Tier) -> usize {
        match tier {
            Tier::Quick => 150_000,
            Tier::Thorough => 8_000_000,
        }
    }

    fn run(&self, run_seed: u64, _tier: Tier, acc: &mut Acc) -> Option<(Violation, Value)> {
        let mut rng = Rng::stream(run_seed, "workload");
        // one run in 2,500: a single very large expression (34,000..60,000 leaves, two rewrite
        // rounds each), requested whole; in half of them its lower half is requested first
        if rng.chance(1, 2500) {
            let n = rng.range(34_000, 60_000) as u32;
            let mut steps = vec![Step::BuildChain(n)];
            if rng.bool() {
                steps.push(Step::Req(0));
            }
            steps.push(Step::Req(1));
            let scn = SimpScenario { steps };
            acc.evaluations += 1;
            acc.count("pool.one_very_large_expression", 1);
            acc.sim_steps += 2;
            acc.distinct.insert(crate::rng::fnv1a(format!("{:?}", scn.steps).as_bytes()));
            return judge(&scn, acc).map(|v| (v, scn.to_json()));
        }
        // K clients own batches from one pool; pool members are built in between requests
        let n_build = rng.range(15, 90) as usize;
        // pool flavours: general (all widths), narrow (mostly 1..4 bits), Boolean-only (deep
        // 1-bit nests, where rewrite chains are longest and rules interact most)
        let flavour = rng.below(3);
        let pool_calls = match flavour {
            0 => gen_program(&mut rng, n_build, false),
            1 => {
                super::c12::set_narrow_widths(true);
                let p = gen_program(&mut rng, n_build, false);
                super::c12::set_narrow_widths(false);
                p
            }
            _ => gen_bool_pool(&mut rng, n_build),
        };
        acc.count(["pool.general", "pool.narrow", "pool.boolean"][flavour as usize], 1);
        let k = rng.range(2, 4) as usize;
        let mut srng = Rng::stream(run_seed, "sched");
        // each client's batch: a random subset of the pool (requests can only name members that
        // exist at that point of the schedule)
        let mut batches: Vec<Vec<usize>> = (0..k).map(|_| vec![]).collect();
        for i in 0..pool_calls.len() {
            for b in batches.iter_mut() {
                if srng.chance(1, 2) {
                    b.push(i);
                }
            }
        }
        for b in batches.iter_mut() {
            srng.shuffle(b);
        }
        let mut steps: Vec<Step> = vec![];
        let mut built = 0usize;
        let mut cursors = vec![0usize; k];
        loop {
            let can_build = built < pool_calls.len();
            // requests whose target already exists
            let ready: Vec<usize> = (0..k)
                .filter(|c| cursors[*c] < batches[*c].len() && batches[*c][cursors[*c]] < built)
                .collect();
            if !can_build && ready.is_empty() {
                // skip requests that can never become ready (none: all targets < pool size)
                if (0..k).all(|c| cursors[c] >= batches[c].len()) {
                    break;
                }
                for c in 0..k {
                    if cursors[c] < batches[c].len() && batches[c][cursors[c]] >= built {
                        cursors[c] += 1;
                    }
                }
                continue;
            }
            if can_build && (ready.is_empty() || srng.chance(1, 2)) {
                steps.push(Step::Build(pool_calls[built].clone()));
                built += 1;
            } else {
                let c = *srng.pick(&ready);
                steps.push(Step::Req(batches[c][cursors[c]]));
                cursors[c] += 1;
            }
        }
        let scn = SimpScenario { steps };
        acc.evaluations += 1;
        acc.sim_steps += scn.steps.len() as u64;
        acc.distinct.insert(crate::rng::fnv1a(format!("{:?}", scn.steps).as_bytes()));
        acc.distinct2.insert(crate::rng::fnv1a(format!("{pool_calls:?}").as_bytes()));
        if acc.samples.is_empty() {
            acc.samples.push(json!({"steps": scn.to_json()["workload"]["steps"].as_array().unwrap().iter().take(30).cloned().collect::<Vec<_>>()}));
        }
        judge(&scn, acc).map(|v| (v, scn.to_json()))
    }

    fn replay(&self, scenario: &Value, acc: &mut Acc) -> Result<Option<Violation>, String> {
        Ok(judge(&SimpScenario::from_json(scenario)?, acc))
    }

    fn shrink(&self, scenario: &Value) -> Vec<Value> {
        let Ok(scn) = SimpScenario::from_json(scenario) else {
            return vec![];
        };
        let mut out = vec![];
        for i in 0..scn.steps.len() {
            if let Step::BuildChain(n) = scn.steps[i] {
                for m in [n / 2, n - n / 8, n - 1000] {
                    if m >= 2 && m < n {
                        let mut s = scn.clone();
                        s.steps[i] = Step::BuildChain(m);
                        out.push(s);
                    }
                }
            }
        }
        // drop requests (any), drop trailing builds
        for i in (0..scn.steps.len()).rev() {
            if let Step::Req(_) = scn.steps[i] {
                let mut s = scn.clone();
                s.steps.remove(i);
                out.push(s);
            }
        }
        // dropping a build that nothing refers to: the last build step
        if let Some(last_build) = scn.steps.iter().rposition(|s| matches!(s, Step::Build(_))) {
            let n_builds = scn.steps.iter().filter(|s| matches!(s, Step::Build(_))).count();
            let mut s = scn.clone();
            s.steps.remove(last_build);
            s.steps.retain(|st| !matches!(st, Step::Req(i) if *i == n_builds - 1));
            out.push(s);
        }
        out.iter().map(|s| s.to_json()).collect()
    }

    fn meta(&self) -> EvidenceMeta {
        EvidenceMeta {
            level: "exploration",
            rule: "one Context; a pool of 15..90 well-typed expressions with heavy sub-term sharing (all operators incl. division and arrays; widths 1..8, 16, 31..33, 63..65, 127..129, 200; literal shapes 0 / 1 / all-ones / one-hot / random, i.e. shift amounts >= width and >= 2^32 included) is built while 2..4 clients request simplification of their batches; the scheduler interleaves requests and constructions. Per request e: long-lived sparse-cache simplifier, long-lived dense-cache simplifier and a fresh simplifier must return the same reference; simplifying the result again (shared, dense, fresh) returns it unchanged; at the end every request is repeated and must give the first answer. Termination: every simplify call gets a fuel of 10^6 rewrite-loop iterations through hook H2 (typical use < 10^3); exhaustion = non-termination, replayable exactly. Distinct by whole step sequence.".into(),
            assumptions: vec![
                "no particular normal form is demanded, only repeatability".into(),
                "termination is stated as a step bound (10^6 rewrite-loop iterations), not wall-clock".into(),
            ],
            real_components: vec!["expr::Simplifier<SparseExprMap>", "expr::Simplifier<DenseExprMetaData>", "expr::simplify_single_expression", "system::transform::simplify_expressions (batch route)", "expr::transform::do_transform_expr", "expr::meta::get_fixed_point", "all rewrite rules in expr/simplify.rs"],
            stub_components: vec!["none (scheduler of logical clients; fresh simplifier as sequential specification)"],
            distinct_measure: "distinct (pool, request order) sequences".into(),
            distinct2_measure: "distinct pools".into(),
        }
    }
}
