//! C02 — bounded model checking returns the exact verdict up to the bound.

use super::mc_common::*;
use crate::harness::Outcome;
use crate::mcrun::*;
use crate::refsem::reach::reach;
use crate::rng::Rng;
use crate::runner::*;
use serde_json::{Value, json};

pub struct C02;

#[derive(Debug, Clone, PartialEq, Eq)]
pub enum Expect {
    Fail,
    Success,
    /// `bmc(check_constraints = true)` documents an assertion for contradictory constraints
    ConstraintAssertion(u32),
}

pub fn expected(sys: &crate::refsem::sys::Sys, engine: &Engine) -> (Expect, Option<u32>) {
    let Engine::Bmc {
        check_constraints,
        k,
        ..
    } = engine
    else {
        unreachable!()
    };
    let k = *k as u32;
    let r = reach(sys, k + 1);
    let d = r.min_bad_depth;
    let dead = r.constraints_dead_at;
    let exp = match (d, dead, check_constraints) {
        (Some(d), _, _) if d <= k => Expect::Fail,
        (_, Some(dead), true) if dead <= k => Expect::ConstraintAssertion(dead),
        _ => Expect::Success,
    };
    (exp, d)
}

pub fn judge(scn: &McScenario, obs: &McObservation, acc: &mut Acc) -> Option<Violation> {
    let (exp, _) = expected(&scn.sys, &scn.cfg.engine);
    let mk = |oracle: &str, class: &str, site: String, detail: String| Violation {
        property: "C02".into(),
        oracle: oracle.into(),
        class: class.into(),
        site,
        detail,
    };
    let v = match (&obs.outcome, &exp) {
        (Outcome::Ok(Verdict::Fail(_)), Expect::Fail) => {
            acc.count("verdict.fail", 1);
            None
        }
        (Outcome::Ok(Verdict::Success), Expect::Success) => {
            acc.count("verdict.success", 1);
            None
        }
        (Outcome::Panic { msg, .. }, Expect::ConstraintAssertion(_))
            if msg.contains("Found unsatisfiable constraints") =>
        {
            acc.count("verdict.documented_constraint_assertion", 1);
            None
        }
        (Outcome::Ok(v), e) => Some(mk(
            "C02/verdict",
            "WrongVerdict",
            format!("got {} expected {:?}", v.short(), e).replace(|c: char| c.is_ascii_digit(), "#"),
            format!(
                "bmc returned {} but exhaustive reachability says {:?} [{}]",
                v.short(),
                e,
                scn.cfg.describe()
            ),
        )),
        (Outcome::Err(e), _) => {
            let site = match obs.first_solver_error() {
                Some(w) => format!(
                    "solver-rejects:{}",
                    categorize_solver_error(w.solver_error.as_deref().unwrap_or(""))
                ),
                None => "no-solver-error".to_string(),
            };
            let why = obs
                .first_solver_error()
                .map(|w| {
                    format!(
                        "; reference solver rejected `{}` with: {}",
                        w.cmd,
                        w.solver_error.as_deref().unwrap_or("")
                    )
                })
                .unwrap_or_default();
            Some(mk(
                "C02/definite",
                "Err",
                site,
                format!("bmc returned an error in a fault-free run: {e}{why} [{}]", scn.cfg.describe()),
            ))
        }
        (Outcome::Panic { loc, msg }, _) => Some(mk(
            "C02/definite",
            "Panic",
            loc.clone(),
            format!("bmc panicked at {loc}: {msg} [{}]", scn.cfg.describe()),
        )),
        (Outcome::Deadlock(d), _) => Some(mk("C02/definite", "Deadlock", "transport".into(), d.clone())),
        (Outcome::Livelock(d), _) => Some(mk("C02/definite", "Livelock", "transport".into(), d.clone())),
        (Outcome::FuelExhausted, _) => Some(mk(
            "C02/definite",
            "FuelExhausted",
            "simplify".into(),
            "rewrite fuel exhausted".into(),
        )),
    };
    match v {
        Some(v) if filter_known(acc, &v) => None,
        other => other,
    }
}

fn pick_k(rng: &mut Rng, d: Option<u32>, kmax: u64) -> u64 {
    let k = match (d, rng.below(5)) {
        (Some(d), 0) => d as i64 - 1,
        (Some(d), 1) | (Some(d), 2) => d as i64,
        (Some(d), 3) => d as i64 + 1,
        _ => rng.range(1, kmax) as i64,
    };
    (k.max(1) as u64).min(kmax)
}

impl Property for C02 {
    fn id(&self) -> &'static str {
        "C02"
    }
    fn probes_not_applicable(&self) -> Vec<(&'static str, &'static str)> {
        vec![("probe.restart_taken", "bmc never restarts its solver; only the PDR engine does (see C03/C10/C15)")]
    }
    fn runs(&self, tier: Tier) -> usize {
        match tier {
            Tier::Quick => 100_000,
            Tier::Thorough => 6_000_000,
        }
    }

    fn run(&self, run_seed: u64, tier: Tier, acc: &mut Acc) -> Option<(Violation, Value)> {
        // one run in twelve: a shipped design under two configurations; no exhaustive oracle, the
        // statement's second sentence is checked directly: the verdict must not depend on solver
        // profile, bad-state mode or prior simplification
        {
            let mut srng = Rng::stream(run_seed, "shipped");
            if srng.chance(1, 12) {
                let corpus = shipped_for_mc(if tier == Tier::Thorough { 60_000 } else { 12_000 });
                if !corpus.is_empty() {
                    let (name, text, sys) = corpus[srng.usize_below(corpus.len())].clone();
                    if !sys.bads.is_empty() {
                        let k = srng.range(1, 4);
                        let mut verdicts: Vec<(String, String)> = vec![];
                        for variant in 0..2u64 {
                            let scn = McScenario {
                                sys: sys.clone(),
                                cfg: McCfg {
                                    profile: srng.usize_below(4),
                                    simplify: srng.bool(),
                                    engine: Engine::Bmc { individually: srng.bool(), check_constraints: false, k },
                                },
                                sim_seed: crate::rng::mix(&[run_seed, 212, variant]),
                                canonical_policy: false,
                                benign: true,
                                faults: vec![],
                                original_btor2: Some(text.clone()),
                            };
                            let mut obs = scn.execute(false);
                            if obs.stub_failure.as_deref().map(|f| f.contains("STUB-LIMIT")).unwrap_or(false) {
                                obs.stub_failure = None;
                                acc.count("skipped.shipped_design_beyond_stub_limits", 1);
                                return None;
                            }
                            obs.account(acc);
                            acc.evaluations += 1;
                            acc.count("workload.shipped_design_runs", 1);
                            match &obs.outcome {
                                Outcome::Ok(v) => verdicts.push((v.short().to_string(), scn.cfg.describe())),
                                Outcome::Err(e) => {
                                    let site = match obs.first_solver_error() {
                                        Some(w) => format!("solver-rejects:{}", categorize_solver_error(w.solver_error.as_deref().unwrap_or(""))),
                                        None => "no-solver-error".to_string(),
                                    };
                                    let v = Violation {
                                        property: "C02".into(),
                                        oracle: "C02/definite".into(),
                                        class: "Err".into(),
                                        site,
                                        detail: format!("bmc returned an error on {name} in a fault-free run: {e} [{}]", scn.cfg.describe()),
                                    };
                                    if !filter_known(acc, &v) {
                                        return Some((v, scn.to_json()));
                                    }
                                    return None;
                                }
                                other => {
                                    let (class, site) = match other {
                                        Outcome::Panic { loc, .. } => ("Panic", loc.clone()),
                                        o => (o.class(), "transport".to_string()),
                                    };
                                    let v = Violation {
                                        property: "C02".into(),
                                        oracle: "C02/definite".into(),
                                        class: class.into(),
                                        site,
                                        detail: format!("bmc on {name}: {} [{}]", other.describe(), scn.cfg.describe()),
                                    };
                                    if !filter_known(acc, &v) {
                                        return Some((v, scn.to_json()));
                                    }
                                    return None;
                                }
                            }
                            if verdicts.len() == 2 && verdicts[0].0 != verdicts[1].0 {
                                let v = Violation {
                                    property: "C02".into(),
                                    oracle: "C02/agreement".into(),
                                    class: "ConfigurationDependentVerdict".into(),
                                    site: "shipped-design".into(),
                                    detail: format!(
                                        "bmc up to k={k} on {name} answers {} under [{}] but {} under [{}]",
                                        verdicts[0].0, verdicts[0].1, verdicts[1].0, verdicts[1].1
                                    ),
                                };
                                if !filter_known(acc, &v) {
                                    return Some((v, scn.to_json()));
                                }
                            }
                        }
                        return None;
                    }
                }
            }
        }
        let mut rng = Rng::stream(run_seed, "workload");
        let (msb, mib, kmax) = match tier {
            Tier::Quick => (8, 3, 6),
            Tier::Thorough => (11, 4, 8),
        };
        // one run in four allows states with an init but no next-state function: such a state is
        // unconstrained from step 1 on (the encoding gives it a fresh symbol per step); the
        // reference reachability enumerates its valuations
        let free_next = Rng::stream(run_seed, "free-next").chance(1, 4);
        let sys = gen_system(&mut rng, msb, mib, false, |c| c.init_without_next = free_next);
        acc.count(
            "probe.state_with_init_without_next",
            sys.states.iter().any(|s| s.init.is_some() && s.next.is_none()) as u64,
        );
        let r = reach(&sys, 0);
        let mut crng = Rng::stream(run_seed, "config");
        // two configurations of the same system per run (cross-configuration agreement follows
        // from each agreeing with the oracle)
        let k = pick_k(&mut crng, r.min_bad_depth, kmax);
        for cfg_i in 0..2 {
            let cfg = McCfg {
                profile: crng.usize_below(4),
                simplify: crng.bool(),
                engine: Engine::Bmc {
                    individually: crng.bool(),
                    check_constraints: crng.chance(1, 4),
                    k: if cfg_i == 0 || crng.bool() { k } else { pick_k(&mut crng, r.min_bad_depth, kmax) },
                },
            };
            let scn = McScenario {
                sys: sys.clone(),
                cfg,
                sim_seed: crate::rng::mix(&[run_seed, cfg_i as u64]),
                canonical_policy: false,
                benign: true,
                faults: vec![],
                original_btor2: None,
            };
            let obs = scn.execute(false);
            obs.account(acc);
            acc.evaluations += 1;
            let Engine::Bmc { individually, k, .. } = &scn.cfg.engine else { unreachable!() };
            let rel = match r.min_bad_depth {
                Some(d) => (*k as i64 - d as i64).clamp(-2, 2),
                None => 9,
            };
            acc.distinct.insert(crate::rng::mix(&[
                shape_hash(&scn.sys),
                scn.cfg.profile as u64,
                *individually as u64,
                scn.cfg.simplify as u64,
                (rel + 10) as u64,
            ]));
            acc.distinct2.insert(conversation_shape(&obs.wire));
            acc.count(&format!("config.profile.{}", PROFILE_NAMES[scn.cfg.profile]), 1);
            acc.count(&format!("config.individually.{individually}"), 1);
            acc.count(&format!("config.simplify.{}", scn.cfg.simplify), 1);
            acc.count(&format!("config.k_minus_d.{}", if rel == 9 { "unreachable".to_string() } else { rel.to_string() }), 1);
            acc.count("probe.system_has_array_state", scn.sys.states.iter().any(|s| !s.ty.is_bv()) as u64);
            acc.count("probe.system_has_state_without_init", scn.sys.states.iter().any(|s| s.init.is_none()) as u64);
            acc.count("probe.system_has_constraint", (!scn.sys.constraints.is_empty()) as u64);
            acc.count("probe.system_has_orphan_state", (!scn.sys.orphan_inputs.is_empty()) as u64);
            acc.count("probe.system_without_states", scn.sys.states.is_empty() as u64);
            acc.count("probe.min_bad_depth_ge_3", r.min_bad_depth.map(|d| d >= 3).unwrap_or(false) as u64);
            if acc.samples.is_empty() {
                acc.samples.push(json!({
                    "btor2": scn.sys.to_btor2(),
                    "config": scn.cfg.describe(),
                    "oracle_min_bad_depth": r.min_bad_depth,
                    "outcome": obs.outcome.class(),
                    "commands": obs.n_command_points,
                }));
            }
            if let Some(v) = judge(&scn, &obs, acc) {
                return Some((v, scn.to_json()));
            }
        }
        None
    }

    fn replay(&self, scenario: &Value, acc: &mut Acc) -> Result<Option<Violation>, String> {
        let scn = McScenario::from_json(scenario)?;
        let obs = scn.execute(false);
        obs.account(acc);
        Ok(judge(&scn, &obs, acc))
    }

    fn shrink(&self, scenario: &Value) -> Vec<Value> {
        match McScenario::from_json(scenario) {
            Ok(s) => s.shrink().iter().map(|s| s.to_json()).collect(),
            Err(_) => vec![],
        }
    }

    fn meta(&self) -> EvidenceMeta {
        EvidenceMeta {
            level: "exploration",
            rule: "seeded swarm generation of small transition systems (as btor2 text), run through parse_str -> [simplify_expressions] -> SmtLibSolver::start -> mc::bmc against the simulated solver; two configurations per system; verdict compared with exhaustive explicit-state reachability. A case is distinct by (system shape hash, solver profile, bad-state mode, simplified, k - d).".into(),
            assumptions: vec![
                "the simulated solver (strict SMT-LIB front end + bit-blaster + CDCL, self-validating every answer) stands in for bitwuzla/yices2/z3/cvc5".into(),
                "systems are bounded by the exhaustive oracle: <= 11 state bits, <= 8 input bits, k <= 8".into(),
                "states with an init but no next function are excluded (model checker and simulator semantics differ for them)".into(),
            ],
            real_components: vec!["btor2::parse_str", "system::transform::simplify_expressions", "mc::bmc", "mc::UnrollSmtEncoding", "smt::serialize", "smt::parser (responses)", "smt::SmtLibSolverCtx"],
            stub_components: vec!["solver process (RefSolver)", "pipes and process table (transport)"],
            distinct_measure: "distinct (system shape, profile, mode, simplified, k-d) tuples".into(),
            distinct2_measure: "distinct conversation shapes (sequence of command kinds)".into(),
        }
    }
}
