//! C18 — the btor2 reader rejects bad input cleanly and only accepts well-typed systems.
//! Stored btor2 text under storage faults: bit flips, lost/duplicated/reordered lines, torn
//! tails, token-level corruption of exactly the fields the property lists.

use super::mc_common::gen_system;
use crate::harness::*;
use crate::rng::Rng;
use crate::runner::*;
use patronus::expr::{Context, ExprRef, ForEachChild, Type, TypeCheck};
use rustc_hash::FxHashSet;
use serde_json::{Value, json};

pub struct C18;

#[derive(Clone, Debug, PartialEq, Eq)]
pub enum SFault {
    BitFlip(usize, u8),
    ByteDel(usize),
    ByteIns(usize, u8),
    Torn(usize),
    LineLost(usize),
    LineDup(usize),
    LineSwap(usize),
    LineMove(usize, usize),
    /// replace token `tok` of line `line` (None: drop the token)
    Token(usize, usize, Option<String>),
}

impl SFault {
    pub fn class(&self) -> &'static str {
        match self {
            SFault::BitFlip(..) => "bit-flip",
            SFault::ByteDel(_) => "byte-deleted",
            SFault::ByteIns(..) => "byte-inserted",
            SFault::Torn(_) => "torn-tail",
            SFault::LineLost(_) => "line-lost",
            SFault::LineDup(_) => "line-duplicated",
            SFault::LineSwap(_) => "lines-swapped",
            SFault::LineMove(..) => "line-moved",
            SFault::Token(_, _, Some(_)) => "token-corrupted",
            SFault::Token(_, _, None) => "token-missing",
        }
    }
    fn to_json(&self) -> Value {
        match self {
            SFault::BitFlip(o, b) => json!(["bit-flip", o, b]),
            SFault::ByteDel(o) => json!(["byte-deleted", o]),
            SFault::ByteIns(o, b) => json!(["byte-inserted", o, b]),
            SFault::Torn(o) => json!(["torn-tail", o]),
            SFault::LineLost(i) => json!(["line-lost", i]),
            SFault::LineDup(i) => json!(["line-duplicated", i]),
            SFault::LineSwap(i) => json!(["lines-swapped", i]),
            SFault::LineMove(i, j) => json!(["line-moved", i, j]),
            SFault::Token(l, t, s) => json!(["token", l, t, s]),
        }
    }
    fn from_json(v: &Value) -> Result<Self, String> {
        let u = |i: usize| v[i].as_u64().map(|x| x as usize).ok_or(format!("arg {i}"));
        Ok(match v[0].as_str().ok_or("fault kind")? {
            "bit-flip" => SFault::BitFlip(u(1)?, u(2)? as u8),
            "byte-deleted" => SFault::ByteDel(u(1)?),
            "byte-inserted" => SFault::ByteIns(u(1)?, u(2)? as u8),
            "torn-tail" => SFault::Torn(u(1)?),
            "line-lost" => SFault::LineLost(u(1)?),
            "line-duplicated" => SFault::LineDup(u(1)?),
            "lines-swapped" => SFault::LineSwap(u(1)?),
            "line-moved" => SFault::LineMove(u(1)?, u(2)?),
            "token" => SFault::Token(u(1)?, u(2)?, v[3].as_str().map(|s| s.to_string())),
            o => return Err(format!("unknown fault {o}")),
        })
    }
}

pub fn apply_fault(text: &[u8], f: &SFault) -> Vec<u8> {
    let mut t = text.to_vec();
    if t.is_empty() {
        return t;
    }
    let lines = |t: &[u8]| -> Vec<Vec<u8>> { t.split(|c| *c == b'\n').map(|l| l.to_vec()).collect() };
    let join = |ls: Vec<Vec<u8>>| -> Vec<u8> { ls.join(&b'\n') };
    match f {
        SFault::BitFlip(o, b) => {
            let o = o % t.len();
            t[o] ^= 1 << (b % 8);
            t
        }
        SFault::ByteDel(o) => {
            let o = o % t.len();
            t.remove(o);
            t
        }
        SFault::ByteIns(o, b) => {
            let o = o % (t.len() + 1);
            t.insert(o, *b);
            t
        }
        SFault::Torn(o) => {
            t.truncate(o % (t.len() + 1));
            t
        }
        SFault::LineLost(i) => {
            let mut ls = lines(&t);
            let i = i % ls.len();
            ls.remove(i);
            join(ls)
        }
        SFault::LineDup(i) => {
            let mut ls = lines(&t);
            let i = i % ls.len();
            let l = ls[i].clone();
            ls.insert(i, l);
            join(ls)
        }
        SFault::LineSwap(i) => {
            let mut ls = lines(&t);
            if ls.len() >= 2 {
                let i = i % (ls.len() - 1);
                ls.swap(i, i + 1);
            }
            join(ls)
        }
        SFault::LineMove(i, j) => {
            let mut ls = lines(&t);
            let i = i % ls.len();
            let l = ls.remove(i);
            let j = j % (ls.len() + 1);
            ls.insert(j, l);
            join(ls)
        }
        SFault::Token(l, k, rep) => {
            let mut ls = lines(&t);
            let l = l % ls.len();
            let line = String::from_utf8_lossy(&ls[l]).to_string();
            let mut toks: Vec<String> = line.split(' ').map(|s| s.to_string()).collect();
            if !toks.is_empty() {
                let k = k % toks.len();
                match rep {
                    Some(r) => toks[k] = r.clone(),
                    None => {
                        toks.remove(k);
                    }
                }
            }
            ls[l] = toks.join(" ").into_bytes();
            join(ls)
        }
    }
}

fn random_token(rng: &mut Rng, n_lines: usize) -> String {
    match rng.below(16) {
        0..=4 => format!("{}", rng.range(0, n_lines as u64 + 2)),
        5 | 6 => format!("-{}", rng.range(0, n_lines as u64 + 2)),
        7 => rng
            .pick(&["2147483648", "4294967295", "4294967296", "18446744073709551616", "1000000000000000000000000000000", "-2147483649", "-9223372036854775808"])
            .to_string(),
        8 => rng.pick(&["0", "-0", "1", "+5", "0x10", "1e3", "٣", "1_0"]).to_string(),
        9 => rng.pick(&["é", "𝔘𝔫𝔦", "名前", "\u{feff}", "a\u{0301}"]).to_string(),
        10 => rng.pick(&["bitvec", "array", "sort", "state", "input"]).to_string(),
        11 | 12 => rng
            .pick(&[
                "add", "read", "write", "ite", "slice", "uext", "sext", "concat", "eq", "not", "inc", "dec", "redor",
                "init", "next", "bad", "constraint", "output", "const", "constd", "consth", "zero", "one", "ones",
                "implies", "iff", "sll", "sra", "neq", "nand", "ult", "sgte", "mul", "udiv", "srem", "smod", "neg",
            ])
            .to_string(),
        13 => "".to_string(),
        _ => format!("{}", rng.bits_shaped(7)),
    }
}

pub fn random_fault(rng: &mut Rng, text_len: usize, n_lines: usize) -> SFault {
    match rng.below(20) {
        0 | 1 => SFault::BitFlip(rng.usize_below(text_len.max(1)), rng.below(8) as u8),
        2 => SFault::ByteDel(rng.usize_below(text_len.max(1))),
        3 => SFault::ByteIns(rng.usize_below(text_len + 1), *rng.pick(&[b' ', b'-', b'0', b'9', b'\n', b';', 0xc3, 0xff, b'a'])),
        4 => SFault::Torn(rng.usize_below(text_len + 1)),
        5 | 6 => SFault::LineLost(rng.usize_below(n_lines.max(1))),
        7 => SFault::LineDup(rng.usize_below(n_lines.max(1))),
        8 => SFault::LineSwap(rng.usize_below(n_lines.max(1))),
        9 => SFault::LineMove(rng.usize_below(n_lines.max(1)), rng.usize_below(n_lines + 1)),
        10 => SFault::Token(rng.usize_below(n_lines.max(1)), rng.usize_below(7), None),
        _ => SFault::Token(
            rng.usize_below(n_lines.max(1)),
            rng.usize_below(7),
            Some(random_token(rng, n_lines)),
        ),
    }
}

/// rough classification of the lines of a btor2 text: (line index, line id, what the line is)
#[derive(Clone, Copy, Debug, PartialEq, Eq)]
enum LineKind {
    BvSort,
    ArraySort,
    BvNode,
    ArrayNode,
    Other,
}

fn classify_lines(text: &str) -> Vec<(usize, String, LineKind, Vec<String>)> {
    let mut sort_kind: std::collections::BTreeMap<String, LineKind> = Default::default();
    let mut out = vec![];
    for (i, line) in text.split('\n').enumerate() {
        let toks: Vec<String> = line.split(' ').map(|s| s.to_string()).collect();
        if toks.len() < 2 {
            out.push((i, String::new(), LineKind::Other, toks));
            continue;
        }
        let id = toks[0].clone();
        let kind = match toks[1].as_str() {
            "sort" => {
                let k = if toks.get(2).map(|s| s.as_str()) == Some("array") { LineKind::ArraySort } else { LineKind::BvSort };
                sort_kind.insert(id.clone(), k);
                k
            }
            "init" | "next" | "bad" | "constraint" | "output" | "fair" | "justice" => LineKind::Other,
            _ => match toks.get(2).and_then(|s| sort_kind.get(s)) {
                Some(LineKind::ArraySort) => LineKind::ArrayNode,
                Some(LineKind::BvSort) => LineKind::BvNode,
                _ => LineKind::Other,
            },
        };
        out.push((i, id, kind, toks));
    }
    out
}

/// a targeted token corruption: an operand or sort reference is redirected to a line of another
/// category (array instead of bit-vector node, another sort, a sort instead of a node, ...)
fn smart_fault(rng: &mut Rng, text: &str) -> Option<SFault> {
    let lines = classify_lines(text);
    let cands: Vec<&(usize, String, LineKind, Vec<String>)> = lines.iter().filter(|l| l.3.len() >= 3).collect();
    if cands.is_empty() {
        return None;
    }
    let (li, _, _, toks) = *rng.pick(&cands);
    // which token holds a reference? sort reference at 2 for nodes, operands from 3; for
    // bad/constraint/output the operand is token 2; for init/next: sort 2, state 3, value 4
    let op = toks[1].as_str();
    let ref_positions: Vec<usize> = match op {
        "sort" => (3..toks.len()).collect(),
        "bad" | "constraint" | "output" => vec![2],
        _ => (2..toks.len().min(6)).collect(),
    };
    if ref_positions.is_empty() {
        return None;
    }
    let pos = *rng.pick(&ref_positions);
    let want = *rng.pick(&[LineKind::ArrayNode, LineKind::ArrayNode, LineKind::BvNode, LineKind::ArraySort, LineKind::BvSort]);
    let pool: Vec<&String> = lines.iter().filter(|l| l.2 == want && !l.1.is_empty()).map(|l| &l.1).collect();
    if pool.is_empty() {
        return None;
    }
    let mut id = (*rng.pick(&pool)).clone();
    if rng.chance(1, 6) {
        id = format!("-{id}");
    }
    Some(SFault::Token(*li, pos, Some(id)))
}

#[derive(Clone, Debug)]
pub struct StoreScenario {
    pub base_name: String,
    pub base_text: String,
    pub faults: Vec<SFault>,
}

impl StoreScenario {
    fn to_json(&self) -> Value {
        json!({"workload": {"kind": "btor2", "base": self.base_name, "text": self.base_text},
               "faults": self.faults.iter().map(|f| f.to_json()).collect::<Vec<_>>(),
               "corrupted_text": String::from_utf8_lossy(&self.corrupted()).to_string()})
    }
    fn from_json(v: &Value) -> Result<Self, String> {
        let mut faults = vec![];
        for f in v["faults"].as_array().ok_or("faults")? {
            faults.push(SFault::from_json(f)?);
        }
        Ok(StoreScenario {
            base_name: v["workload"]["base"].as_str().unwrap_or("").to_string(),
            base_text: v["workload"]["text"].as_str().ok_or("text")?.to_string(),
            faults,
        })
    }
    pub fn corrupted(&self) -> Vec<u8> {
        let mut t = self.base_text.as_bytes().to_vec();
        for f in &self.faults {
            t = apply_fault(&t, f);
        }
        t
    }
}

const DOCUMENTED_UNSUPPORTED: &[&str] = &[
    "TODO: implement support for",
    "Add support for bit rotates",
    "Add support for overflow operators",
    "support fairness constraints",
];

#[derive(Debug, PartialEq, Eq)]
enum Accepted {
    Rejected,
    System,
}

fn deep_check(ctx: &Context, sys: &patronus::system::TransitionSystem) -> Result<(), (String, String)> {
    let mut seen: FxHashSet<ExprRef> = FxHashSet::default();
    let mut todo: Vec<ExprRef> = sys.get_all_exprs();
    let declared: FxHashSet<ExprRef> = sys
        .states
        .iter()
        .map(|s| s.symbol)
        .chain(sys.inputs.iter().copied())
        .collect();
    use patronus::expr::SerializableIrNode;
    while let Some(e) = todo.pop() {
        if !seen.insert(e) {
            continue;
        }
        match e.type_check(ctx) {
            Ok(Type::BV(0)) => {
                return Err(("zero-width".into(), format!("expression {} has width 0", e.serialize_to_str(ctx))));
            }
            Ok(_) => {}
            Err(err) => {
                return Err((
                    "ill-typed-expression".into(),
                    format!("accepted system contains {} which does not type-check: {}", e.serialize_to_str(ctx), err.get_msg()),
                ));
            }
        }
        if ctx[e].is_symbol() && !declared.contains(&e) {
            return Err((
                "undeclared-symbol".into(),
                format!("accepted system uses the symbol {} which is neither an input nor a state", e.serialize_to_str(ctx)),
            ));
        }
        ctx[e].for_each_child(|c| todo.push(*c));
    }
    for st in &sys.states {
        let t = st.symbol.get_type(ctx);
        if !ctx[st.symbol].is_symbol() {
            return Err(("state-not-a-symbol".into(), "a state is not a symbol".into()));
        }
        for (what, e) in [("init", st.init), ("next", st.next)] {
            if let Some(e) = e {
                if e.get_type(ctx) != t {
                    return Err((
                        format!("{what}-type-mismatch"),
                        format!(
                            "{what} expression of state {} has type {:?}, the state has type {t:?}",
                            st.symbol.serialize_to_str(ctx),
                            e.get_type(ctx)
                        ),
                    ));
                }
            }
        }
    }
    for (what, list) in [("bad", &sys.bad_states), ("constraint", &sys.constraints)] {
        for e in list {
            if e.get_type(ctx) != Type::BV(1) {
                return Err((
                    format!("{what}-not-1-bit"),
                    format!("{what} {} has type {:?}", e.serialize_to_str(ctx), e.get_type(ctx)),
                ));
            }
        }
    }
    Ok(())
}

/// Known finding (see known_findings.json): `redxor` is expanded into one slice and one xor node
/// per bit of its operand, so an operand whose declared width is in the millions or billions (a
/// corrupted `sort bitvec` line) makes the reader allocate gigabytes and run for many minutes
/// before the process is killed. Such inputs are recognised syntactically and not executed.
fn redxor_on_huge_width(s: &str) -> Option<u64> {
    if !s.contains("redxor") {
        return None;
    }
    let mut sort_width: std::collections::HashMap<&str, u64> = Default::default();
    let mut node_sort: std::collections::HashMap<&str, &str> = Default::default();
    for line in s.lines() {
        let line = line.split(';').next().unwrap_or("");
        let t: Vec<&str> = line.split_whitespace().collect();
        if t.len() < 3 {
            continue;
        }
        if t[1] == "sort" {
            if t[2] == "bitvec" && t.len() >= 4 {
                if let Ok(w) = t[3].parse::<u64>() {
                    sort_width.insert(t[0], w);
                }
            }
            continue;
        }
        if t[1] == "redxor" && t.len() >= 4 {
            let operand = t[3].trim_start_matches('-');
            if let Some(w) = node_sort.get(operand).and_then(|sid| sort_width.get(sid)) {
                if *w >= (1 << 22) {
                    return Some(*w);
                }
            }
        }
        node_sort.insert(t[0], t[2]);
    }
    None
}

/// a per-thread scratch file for stored bytes that only `parse_file` can read
fn scratch_file() -> std::path::PathBuf {
    use std::hash::{Hash, Hasher};
    let mut h = std::collections::hash_map::DefaultHasher::new();
    std::thread::current().id().hash(&mut h);
    let dir = std::path::PathBuf::from(crate::runner::verif_dir()).join("scratch");
    let _ = std::fs::create_dir_all(&dir);
    dir.join(format!("c18-{}-{:x}.btor", std::process::id(), h.finish()))
}

fn judge_text(text: &[u8], acc: &mut Acc) -> Option<Violation> {
    if std::str::from_utf8(text).is_err() {
        acc.count("probe.stored_bytes_not_utf8_read_through_parse_file", 1);
    }
    let s = String::from_utf8_lossy(text).to_string();
    if let Some(w) = redxor_on_huge_width(&s) {
        let v = Violation {
            property: "C18".into(),
            oracle: "C18/reader".into(),
            class: "ResourceExhaustion".into(),
            site: "redxor-operand-width>=2^22".into(),
            detail: format!("redxor on an operand of declared width {w}: the reader builds one slice and one xor node per bit (not executed)"),
        };
        return if filter_known(acc, &v) { None } else { Some(v) };
    }
    let mut problem: Option<(String, String)> = None;
    let out = guarded(|| {
        let mut ctx = Context::default();
        // bytes that are not valid UTF-8 cannot be handed to `parse_str(&str)`: such a stored
        // file reaches the reader through `parse_file_with_ctx`, which reads the bytes itself
        let parsed = if std::str::from_utf8(text).is_err() {
            let path = scratch_file();
            std::fs::write(&path, text).map_err(|e| format!("HARNESS: cannot write {}: {e}", path.display()))?;
            let r = patronus::btor2::parse_file_with_ctx(&path, &mut ctx);
            let _ = std::fs::remove_file(&path);
            r
        } else {
            patronus::btor2::parse_str(&mut ctx, &s, Some("stored"))
        };
        match parsed {
            None => Ok(Accepted::Rejected),
            Some(sys) => {
                if let Err(p) = deep_check(&ctx, &sys) {
                    problem = Some(p);
                }
                Ok(Accepted::System)
            }
        }
    });
    let mk = |class: &str, site: String, detail: String| Violation {
        property: "C18".into(),
        oracle: "C18/reader".into(),
        class: class.into(),
        site,
        detail,
    };
    let v = match out {
        Outcome::Ok(Accepted::Rejected) => {
            acc.count("outcome.rejected", 1);
            None
        }
        Outcome::Ok(Accepted::System) => {
            acc.count("outcome.accepted", 1);
            problem.map(|(site, detail)| mk("IllFormedSystemAccepted", site, detail))
        }
        Outcome::Panic { loc, msg } => {
            if DOCUMENTED_UNSUPPORTED.iter().any(|d| msg.contains(d)) {
                acc.count("outcome.documented_unsupported_operator", 1);
                None
            } else {
                // the message often embeds input text; key the finding on location + message head
                let head: String = msg
                    .split(':')
                    .next()
                    .unwrap_or("")
                    .chars()
                    .filter(|c| !c.is_ascii_digit())
                    .take(40)
                    .collect();
                Some(mk("Panic", format!("{loc} {head}"), format!("reader panicked at {loc}: {msg}")))
            }
        }
        other => Some(mk(other.class(), "reader".into(), other.describe())),
    };
    match v {
        Some(v) if filter_known(acc, &v) => None,
        other => other,
    }
}

fn judge(scn: &StoreScenario, acc: &mut Acc) -> Option<Violation> {
    judge_text(&scn.corrupted(), acc)
}

fn corpus(max_bytes: u64) -> Vec<(String, String)> {
    let mut files: Vec<std::path::PathBuf> = vec![];
    let mut dirs = vec![std::path::PathBuf::from("/repo/inputs")];
    while let Some(d) = dirs.pop() {
        if let Ok(rd) = std::fs::read_dir(&d) {
            for e in rd.flatten() {
                let p = e.path();
                if p.is_dir() {
                    dirs.push(p);
                } else if let Some(ext) = p.extension().and_then(|x| x.to_str()) {
                    if ext.starts_with("btor") {
                        if let Ok(md) = e.metadata() {
                            if md.len() <= max_bytes && md.len() > 0 {
                                files.push(p);
                            }
                        }
                    }
                }
            }
        }
    }
    files.sort();
    files
        .into_iter()
        .filter_map(|p| {
            std::fs::read(&p)
                .ok()
                .map(|b| (p.display().to_string(), String::from_utf8_lossy(&b).to_string()))
        })
        .collect()
}

impl Property for C18 {
    fn id(&self) -> &'static str {
        "C18"
    }
    fn runs(&self, tier: Tier) -> usize {
        match tier {
            Tier::Quick => 600,
            Tier::Thorough => 1_000,
        }
    }

    fn run(&self, run_seed: u64, tier: Tier, acc: &mut Acc) -> Option<(Violation, Value)> {
        thread_local! {
            static CORPUS: std::cell::RefCell<Option<(u64, Vec<(String, String)>)>> = const { std::cell::RefCell::new(None) };
        }
        let max_bytes = match tier {
            Tier::Quick => 6_000,
            Tier::Thorough => 200_000,
        };
        let files: Vec<(String, String)> = CORPUS.with(|c| {
            let mut c = c.borrow_mut();
            if c.as_ref().map(|x| x.0) != Some(max_bytes) {
                *c = Some((max_bytes, corpus(max_bytes)));
            }
            c.as_ref().unwrap().1.clone()
        });
        let mut rng = Rng::stream(run_seed, "workload");
        // now and then: the smallest text of the recorded finding (redxor over a huge declared
        // width), so that every tier meets it and reports it as KNOWN-FINDING
        if Rng::stream(run_seed, "directed").chance(1, 40) {
            let text = "1 sort bitvec 2147483648\n2 input 1\n3 sort bitvec 1\n4 redxor 3 2\n5 bad 4\n";
            acc.evaluations += 1;
            acc.count("probe.directed_redxor_on_huge_width", 1);
            if let Some(v) = judge_text(text.as_bytes(), acc) {
                let scn = StoreScenario { base_name: "directed".into(), base_text: text.into(), faults: vec![] };
                return Some((v, scn.to_json()));
            }
        }
        // base: a shipped file or a generated system
        let (base_name, base_text) = if !files.is_empty() && rng.chance(2, 3) {
            files[rng.usize_below(files.len())].clone()
        } else {
            let sys = gen_system(&mut rng, 12, 6, false, |c| {
                c.init_without_next = true;
                c.division = true;
            });
            ("generated".to_string(), sys.to_btor2())
        };
        acc.distinct2.insert(crate::rng::fnv1a(base_text.as_bytes()));
        let n_lines = base_text.lines().count().max(1);
        let text_len = base_text.len();
        // the unfaulted base must be handled cleanly as well
        acc.evaluations += 1;
        if let Some(v) = judge_text(base_text.as_bytes(), acc) {
            let scn = StoreScenario { base_name, base_text, faults: vec![] };
            return Some((v, scn.to_json()));
        }
        let mut frng = Rng::stream(run_seed, "faults");
        let mut plans: Vec<Vec<SFault>> = vec![];
        // small files: all single line-level faults (enumeration)
        if n_lines <= 60 {
            acc.count("probe.file_with_all_single_line_faults_enumerated", 1);
            for i in 0..n_lines {
                plans.push(vec![SFault::LineLost(i)]);
                plans.push(vec![SFault::LineDup(i)]);
                plans.push(vec![SFault::LineSwap(i)]);
                // torn tail at every line boundary
                let off: usize = base_text.lines().take(i).map(|l| l.len() + 1).sum();
                plans.push(vec![SFault::Torn(off)]);
            }
        }
        let n_random = if tier == Tier::Thorough { 400 } else { 100 };
        for _ in 0..n_random {
            let n = 1 + frng.usize_below(4);
            plans.push((0..n).map(|_| random_fault(&mut frng, text_len, n_lines)).collect());
        }
        // targeted reference corruptions (wrong-kind operands, wrong sorts): single faults
        for _ in 0..n_random / 2 {
            if let Some(f) = smart_fault(&mut frng, &base_text) {
                plans.push(vec![f]);
            }
        }
        if acc.samples.is_empty() {
            let scn = StoreScenario {
                base_name: base_name.clone(),
                base_text: base_text.clone(),
                faults: plans.last().cloned().unwrap_or_default(),
            };
            acc.samples.push(json!({"base": base_name, "lines": n_lines, "fault_sequences": plans.len(),
                "example_faults": scn.faults.iter().map(|f| f.to_json()).collect::<Vec<_>>()}));
        }
        for faults in plans {
            let scn = StoreScenario {
                base_name: base_name.clone(),
                base_text: base_text.clone(),
                faults,
            };
            acc.evaluations += 1;
            acc.sim_steps += scn.faults.len() as u64;
            for f in &scn.faults {
                acc.count(&format!("fault.{}", f.class()), 1);
            }
            let t = scn.corrupted();
            acc.distinct.insert(crate::rng::fnv1a(&t));
            if let Some(v) = judge_text(&t, acc) {
                return Some((v, scn.to_json()));
            }
        }
        None
    }

    fn replay(&self, scenario: &Value, acc: &mut Acc) -> Result<Option<Violation>, String> {
        Ok(judge(&StoreScenario::from_json(scenario)?, acc))
    }

    fn shrink(&self, scenario: &Value) -> Vec<Value> {
        let Ok(scn) = StoreScenario::from_json(scenario) else {
            return vec![];
        };
        let mut out = vec![];
        // fewer faults first
        for i in 0..scn.faults.len() {
            let mut s = scn.clone();
            s.faults.remove(i);
            out.push(s);
        }
        // then make the corruption part of the base and delete lines
        if !scn.faults.is_empty() {
            let mut s = scn.clone();
            s.base_text = String::from_utf8_lossy(&scn.corrupted()).to_string();
            s.faults.clear();
            out.push(s);
        } else {
            let lines: Vec<&str> = scn.base_text.split('\n').collect();
            let n = lines.len();
            let mut chunk = n / 2;
            while chunk >= 1 && out.len() < 120 {
                let mut start = 0;
                while start < n && out.len() < 120 {
                    let mut keep: Vec<&str> = vec![];
                    keep.extend(&lines[..start]);
                    keep.extend(&lines[(start + chunk).min(n)..]);
                    let mut s = scn.clone();
                    s.base_text = keep.join("\n");
                    out.push(s);
                    start += chunk;
                }
                chunk /= 2;
            }
        }
        out.iter().map(|s| s.to_json()).collect()
    }

    fn meta(&self) -> EvidenceMeta {
        EvidenceMeta {
            level: "fault_enumeration",
            rule: "a valid btor2 file (every shipped inputs/**/*.btor* up to 6 kB in quick / 200 kB in thorough, or generator output incl. division operators and init-without-next) is 'stored'; for files of <= 60 lines every single line-level fault is enumerated (line lost, duplicated, swapped with its neighbour, torn tail at every line boundary); on top, seeded fault sequences of 1..4 storage faults: bit flip, byte deleted/inserted (incl. invalid UTF-8 bytes), torn tail at a random byte, line lost/duplicated/swapped/moved, token missing, a reference redirected to a line of another category (array node where a bit-vector node is expected and vice versa, sort lines, other sorts), token replaced (another line id, negated id, 0 / -0, numbers around 2^31, 2^32, 2^64, 10^30, non-ASCII text, another operator or keyword, empty). Oracle: btor2::parse_str under catch_unwind returns None or Some(system); a panic is a violation unless its message is one of the documented not-yet-supported operators; for Some(system): every reachable expression type-checks node by node and has non-zero width, init/next have their state's type, bads/constraints are 1 bit wide, every reachable symbol is a declared input or state. Distinct by corrupted text.".into(),
            assumptions: vec![
                "faults are applied to the bytes handed to parse_str (parse_file opens the file itself, so there is no stream seam to perturb)".into(),
                "invalid UTF-8 produced by byte faults is replaced lossily before the &str API is called".into(),
            ],
            real_components: vec!["btor2::parse_str", "expr::Context builder methods", "expr::TypeCheck", "improve_state_names / system transforms run by the reader"],
            stub_components: vec!["storage (fault injector on the stored bytes)"],
            distinct_measure: "distinct corrupted texts".into(),
            distinct2_measure: "distinct base files".into(),
        }
    }
}
