//! C10 — PDR verdicts are sound and definite, with genuine counterexamples.

use super::mc_common::*;
use crate::harness::Outcome;
use crate::mcrun::*;
use crate::refsem::reach::reach;
use crate::rng::Rng;
use crate::runner::*;
use serde_json::{Value, json};

pub struct C10;

/// see c03::judge: with `simplify = true` the engine ran on the simplified system; a violation
/// that disappears without simplification is attributed to simplification and only counted
pub fn judge(scn: &McScenario, obs: &McObservation, acc: &mut Acc) -> Option<Violation> {
    let v = judge_raw(scn, obs, acc)?;
    if scn.cfg.simplify {
        let mut plain = scn.clone();
        plain.cfg.simplify = false;
        let obs2 = plain.execute(false);
        let mut scratch = Acc::default();
        if judge_raw(&plain, &obs2, &mut scratch).is_none() {
            acc.count("note.discrepancy_attributed_to_simplification", 1);
            return None;
        }
    }
    Some(v)
}

fn judge_raw(scn: &McScenario, obs: &McObservation, acc: &mut Acc) -> Option<Violation> {
    let r = reach(&scn.sys, 0);
    let reachable = r.min_bad_depth.is_some();
    let mk = |oracle: &str, class: &str, site: String, detail: String| Violation {
        property: "C10".into(),
        oracle: oracle.into(),
        class: class.into(),
        site,
        detail: format!("{detail} [{}; policy: {}]", scn.cfg.describe(), scn.policy().describe()),
    };
    let v = match &obs.outcome {
        Outcome::Ok(Verdict::Success) if !reachable => {
            acc.count("verdict.success", 1);
            None
        }
        Outcome::Ok(Verdict::Fail(w)) if reachable => {
            acc.count("verdict.fail", 1);
            // a witness has no slot for the later values of a state that has an init value but
            // no next-state function, so its replay is not defined for such systems
            let replayable = !scn.sys.states.iter().any(|s| s.init.is_some() && s.next.is_none());
            match obs.parsed.as_ref().filter(|_| replayable).map(|n| check_witness(&scn.sys, n, w)) {
                Some(Err(e)) if !e.starts_with("HARNESS") => Some(mk(
                    "C10/witness",
                    "BogusWitness",
                    "pdr-fallback-witness".into(),
                    e,
                )),
                _ => None,
            }
        }
        Outcome::Ok(Verdict::Success) => Some(mk(
            "C10/verdict",
            "UnsoundSuccess",
            "pdr".into(),
            format!(
                "pdr answered success but a bad state is reachable at depth {}",
                r.min_bad_depth.unwrap()
            ),
        )),
        Outcome::Ok(Verdict::Fail(_)) => Some(mk(
            "C10/verdict",
            "UnsoundFail",
            "pdr".into(),
            "pdr answered failure but no bad state is reachable at any depth".into(),
        )),
        Outcome::Ok(Verdict::Unknown) => Some(mk(
            "C10/definite",
            "Unknown",
            "pdr".into(),
            "pdr gave up with Unknown on a finite-state system".into(),
        )),
        Outcome::Err(e) => {
            let site = match obs.first_solver_error() {
                Some(w) => format!(
                    "solver-rejects:{}",
                    categorize_solver_error(w.solver_error.as_deref().unwrap_or(""))
                ),
                None => {
                    // classify by the error text (stable prefixes of patronus' own messages)
                    if e.contains("original cube intersects with init") {
                        "fix_gen_cube:original-cube-intersects-init".to_string()
                    } else if e.contains("failed to parse a response") {
                        "response-parser".to_string()
                    } else {
                        "no-solver-error".to_string()
                    }
                }
            };
            let why = obs
                .first_solver_error()
                .map(|w| {
                    format!(
                        "; reference solver rejected `{}` with: {}",
                        w.cmd,
                        w.solver_error.as_deref().unwrap_or("")
                    )
                })
                .unwrap_or_default();
            Some(mk(
                "C10/definite",
                "Err",
                site,
                format!("pdr returned an error in a fault-free run: {e}{why}"),
            ))
        }
        Outcome::Panic { loc, msg } => Some(mk(
            "C10/definite",
            "Panic",
            loc.clone(),
            format!("pdr panicked at {loc}: {msg}"),
        )),
        Outcome::Deadlock(d) => Some(mk("C10/definite", "Deadlock", "transport".into(), d.clone())),
        Outcome::Livelock(d) => Some(mk("C10/definite", "Livelock", "transport".into(), d.clone())),
        Outcome::FuelExhausted => Some(mk("C10/definite", "FuelExhausted", "simplify".into(), String::new())),
    };
    match v {
        Some(v) if filter_known(acc, &v) => None,
        other => other,
    }
}

fn gen_system_c10(rng: &mut Rng, msb: u32, mib: u32, harder: bool, free_next: bool) -> crate::refsem::sys::Sys {
    gen_system(rng, msb, mib, true, |c| {
        c.arrays = false;
        // states with an init value but no next-state function: free from step 1 on (the
        // reference reachability enumerates their valuations)
        c.init_without_next = free_next;
        if harder {
            // counters / shift registers starting from a defined state: needs several frames
            c.structured = true;
            c.no_init_16 = 0;
            c.max_state_bits = c.max_state_bits.max(4);
        }
    })
}

fn trace_hash(obs: &McObservation) -> u64 {
    // sequence of (query kind, answer, core size)
    let mut s = String::new();
    for w in &obs.wire {
        if w.kind.response_bearing() {
            s.push_str(w.kind.short());
            s.push(':');
            let r = w.reply.trim();
            if r == "sat" || r == "unsat" {
                s.push_str(r);
            } else if w.kind == crate::refsolver::CmdKind::GetUnsatAssumptions {
                s.push_str(&format!("core{}", r.matches("__pdr_act_").count()));
            }
            s.push(';');
        }
    }
    crate::rng::fnv1a(s.as_bytes())
}

impl Property for C10 {
    fn id(&self) -> &'static str {
        "C10"
    }
    fn probes_not_applicable(&self) -> Vec<(&'static str, &'static str)> {
        vec![
            ("probe.array_value_printed", "PDR is specified for bit-vector states only; no array values are ever requested"),
            ("probe.let_in_value", "lets are only printed inside array values"),
            ("probe.shadowed_store_in_value", "only array values have stores"),
        ]
    }
    fn runs(&self, tier: Tier) -> usize {
        match tier {
            Tier::Quick => 60_000,
            Tier::Thorough => 600_000,
        }
    }

    fn run(&self, run_seed: u64, tier: Tier, acc: &mut Acc) -> Option<(Violation, Value)> {
        let mut rng = Rng::stream(run_seed, "workload");
        let mut crng = Rng::stream(run_seed, "config");
        // Both tiers use the same size bounds. A PDR run that cannot generalise blocks states one
        // at a time, so its length grows with 2^(state bits) x depth, with a heavy tail over
        // seeds (measured over 300,000 executions at 7 bits: 99.9 % below 100,000 transport
        // events, maximum 430,000; one of 1,000,000 reached 1,500,000 events and 23 minutes). The
        // livelock sentinel (a violation of C10) must stay far above every legitimate run, so
        // systems have at most 6 state bits when both configurations of the run use unsat-core
        // generalisation and at most 5 otherwise; the budget is 1.2 million events (6 million in
        // the thorough tier, which explores more seeds, not larger systems).
        let _ = tier;
        let variants: Vec<(usize, bool, bool)> =
            (0..2).map(|_| (crng.usize_below(4), crng.bool(), crng.chance(1, 3))).collect();
        let all_generalise = variants.iter().all(|(profile, _, disable_cores)| !disable_cores && *profile != 1);
        let (msb, mib) = (if all_generalise { 6 } else { 5 }, 3);
        let harder = crng.chance(3, 4);
        let max_depth = 10;
        let mut tries = 0;
        let free_next = crng.chance(1, 5);
        let (sys, r) = loop {
            tries += 1;
            let sys = gen_system_c10(&mut rng, msb, mib, harder && tries <= 200, free_next);
            let r = reach(&sys, 0);
            // bound the length of the PDR run by the oracle's diameter (a workload bound, not a
            // watchdog: the step budget stays a violation)
            if r.fixpoint_depth <= max_depth && r.min_bad_depth.map(|d| d <= max_depth).unwrap_or(true) {
                break (sys, r);
            }
        };
        // the same system under two different answer policies / generalisation modes
        for variant in 0..2u64 {
            let (profile, simplify, disable_cores) = variants[variant as usize];
            let scn = McScenario {
                sys: sys.clone(),
                cfg: McCfg {
                    profile,
                    simplify,
                    engine: Engine::Pdr { disable_cores },
                },
                sim_seed: crate::rng::mix(&[run_seed, 10, variant]),
                canonical_policy: false,
                benign: true,
                faults: vec![],
                original_btor2: None,
            };
            let obs = scn.execute(false);
            obs.account(acc);
            acc.evaluations += 1;
            acc.distinct.insert(trace_hash(&obs));
            acc.distinct2.insert(shape_hash(&scn.sys));
            let Engine::Pdr { disable_cores } = &scn.cfg.engine else { unreachable!() };
            let uses_cores = !disable_cores && scn.cfg.profile != 1;
            acc.count(&format!("config.profile.{}", PROFILE_NAMES[scn.cfg.profile]), 1);
            acc.count(if uses_cores { "config.unsat_core_generalisation" } else { "config.no_generalisation" }, 1);
            acc.count(
                if scn.cfg.profile == 1 { "config.style.push_pop" } else { "config.style.check_sat_assuming" },
                1,
            );
            if let Ok(f) = std::env::var("PATSIM_C10_DUMP") {
                use std::io::Write;
                if let Ok(mut fh) = std::fs::OpenOptions::new().append(true).create(true).open(f) {
                    let line = format!(
                        "{} {} {} {} {} {} {}\n",
                        scn.sys.state_bits(),
                        r.fixpoint_depth,
                        r.min_bad_depth.map(|d| d as i64).unwrap_or(-1),
                        uses_cores as u8,
                        r.reachable,
                        obs.tstats.events,
                        obs.sstats.iter().map(|s| s.checks).sum::<u64>()
                    );
                    let _ = fh.write_all(line.as_bytes());
                }
            }
            acc.count("probe.state_with_init_without_next", scn.sys.states.iter().any(|s| s.init.is_some() && s.next.is_none()) as u64);
            acc.count("probe.bad_reachable", r.min_bad_depth.is_some() as u64);
            acc.count("probe.bad_reachable_at_depth_ge_3", r.min_bad_depth.map(|d| d >= 3).unwrap_or(false) as u64);
            acc.count("probe.safe_with_fixpoint_depth_ge_3", (r.min_bad_depth.is_none() && r.fixpoint_depth >= 3) as u64);
            acc.count("probe.conversation_over_200_commands", (obs.n_command_points > 200) as u64);
            let n_core_queries: u64 = obs.sstats.iter().map(|s| s.get_cores).sum();
            acc.count("probe.unsat_core_requested", (n_core_queries > 0) as u64);
            let lits_in: u64 = obs.sstats.iter().map(|s| s.core_lits_in).sum();
            let lits_out: u64 = obs.sstats.iter().map(|s| s.core_lits_out).sum();
            acc.count("probe.core_dropped_literals", (lits_out < lits_in) as u64);
            if acc.samples.is_empty() {
                acc.samples.push(json!({
                    "btor2": scn.sys.to_btor2(),
                    "config": scn.cfg.describe(),
                    "policy": scn.policy().describe(),
                    "oracle_min_bad_depth": r.min_bad_depth,
                    "oracle_fixpoint_depth": r.fixpoint_depth,
                    "outcome": obs.outcome.class(),
                    "commands": obs.n_command_points,
                    "solver_processes": obs.n_procs,
                }));
            }
            if let Some(v) = judge(&scn, &obs, acc) {
                return Some((v, scn.to_json()));
            }
        }
        None
    }

    fn replay(&self, scenario: &Value, acc: &mut Acc) -> Result<Option<Violation>, String> {
        let scn = McScenario::from_json(scenario)?;
        let obs = scn.execute(false);
        obs.account(acc);
        Ok(judge(&scn, &obs, acc))
    }

    fn shrink(&self, scenario: &Value) -> Vec<Value> {
        match McScenario::from_json(scenario) {
            Ok(s) => s.shrink().iter().map(|s| s.to_json()).collect(),
            Err(_) => vec![],
        }
    }

    fn meta(&self) -> EvidenceMeta {
        EvidenceMeta {
            level: "exploration",
            rule: "bit-vector transition systems (<= 6 state bits, <= 5 when a configuration cannot generalise; diameter <= 10) run through parse -> [simplify] -> mc::pdr (incl. solver restart and BMC fallback) against the simulated solver, twice per system with different seeded answer policies: which model (=> which cube), which unsat core (minimal by randomised deletion / full / in between, shuffled, optionally re-spelled), which print form; both generalisation modes; check-sat-assuming and push/pop styles. Verdict compared with full-fixpoint explicit-state reachability; any Err/Unknown/panic/deadlock/step-budget overrun is a violation. Distinct by solver-choice trace (sequence of query kind, answer, core size).".into(),
            assumptions: vec![
                "the simulated solver's answers are legal (self-validated): models satisfy all active assertions, cores are unsatisfiable".into(),
                "step bound instead of wall clock: 1,200,000 (quick) / 6,000,000 (thorough) transport events per run".into(),
            ],
            real_components: vec!["btor2::parse_str", "simplify_expressions", "mc::pdr", "mc::bmc (fallback)", "mc::UnrollSmtEncoding", "smt::serialize", "smt::parser (get-value, get-unsat-assumptions)", "SmtLibSolverCtx incl. restart"],
            stub_components: vec!["solver process (RefSolver)", "pipes and process table (transport)"],
            distinct_measure: "distinct solver-choice traces".into(),
            distinct2_measure: "distinct system shapes".into(),
        }
    }
}
