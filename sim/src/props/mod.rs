pub mod c02;
pub mod c03;
pub mod c04;
pub mod c07;
pub mod c10;
pub mod c14;
pub mod c15;
pub mod mc_common;
