pub mod c02;
pub mod mc_common;
