//! C07 — the simulator executes exactly the transition-system semantics.
//! `sim::Interpreter` as a stateful server driven by a seeded operation history, compared after
//! every operation with a reference model (a map + the independent evaluator; snapshots = clones).

use super::mc_common::*;
use crate::harness::*;
use crate::irx;
use crate::refsem::json::{sys_from_json, sys_to_json};
use crate::refsem::shrink;
use crate::refsem::sys::*;
use crate::rng::Rng;
use crate::runner::*;
use crate::val::*;
use patronus::expr::{Context, ExprRef, ForEachChild};
use patronus::sim::{InitKind, Interpreter, Simulator};
use rustc_hash::{FxHashMap, FxHashSet};
use serde_json::{Value, json};

pub struct C07;

#[derive(Clone, Debug, PartialEq, Eq)]
pub enum Target {
    State(usize),
    Input(usize),
    Output(usize),
    Bad(usize),
    Constraint(usize),
    Next(usize),
    InitExpr(usize),
    Named(usize),
    /// k-th sub-expression of the parsed system (patronus IR), judged by the independent evaluator
    Inner(usize),
}

#[derive(Clone, Debug, PartialEq, Eq)]
pub enum Op {
    Init(Option<u64>),
    SetInput(usize, u128),
    SetState(usize, u128),
    Step,
    Get(Target),
    Snap,
    Restore(usize),
}

fn target_to_json(t: &Target) -> Value {
    match t {
        Target::State(i) => json!(["state", i]),
        Target::Input(i) => json!(["input", i]),
        Target::Output(i) => json!(["output", i]),
        Target::Bad(i) => json!(["bad", i]),
        Target::Constraint(i) => json!(["constraint", i]),
        Target::Next(i) => json!(["next", i]),
        Target::InitExpr(i) => json!(["init", i]),
        Target::Named(i) => json!(["named", i]),
        Target::Inner(i) => json!(["inner", i]),
    }
}

fn target_from_json(v: &Value) -> Result<Target, String> {
    let i = v[1].as_u64().ok_or("target index")? as usize;
    Ok(match v[0].as_str().ok_or("target kind")? {
        "state" => Target::State(i),
        "input" => Target::Input(i),
        "output" => Target::Output(i),
        "bad" => Target::Bad(i),
        "constraint" => Target::Constraint(i),
        "next" => Target::Next(i),
        "init" => Target::InitExpr(i),
        "named" => Target::Named(i),
        "inner" => Target::Inner(i),
        o => return Err(format!("unknown target {o}")),
    })
}

fn op_to_json(o: &Op) -> Value {
    match o {
        Op::Init(None) => json!(["init", "zero"]),
        Op::Init(Some(s)) => json!(["init", format!("random:{s}")]),
        Op::SetInput(i, v) => json!(["set_input", i, format!("{v}")]),
        Op::SetState(i, v) => json!(["set_state", i, format!("{v}")]),
        Op::Step => json!(["step"]),
        Op::Get(t) => json!(["get", target_to_json(t)]),
        Op::Snap => json!(["snap"]),
        Op::Restore(i) => json!(["restore", i]),
    }
}

fn op_from_json(v: &Value) -> Result<Op, String> {
    Ok(match v[0].as_str().ok_or("op")? {
        "init" => match v[1].as_str().ok_or("init kind")? {
            "zero" => Op::Init(None),
            s => Op::Init(Some(
                s.trim_start_matches("random:").parse::<u64>().map_err(|e| e.to_string())?,
            )),
        },
        "set_input" => Op::SetInput(
            v[1].as_u64().ok_or("idx")? as usize,
            v[2].as_str().ok_or("val")?.parse::<u128>().map_err(|e| e.to_string())?,
        ),
        "set_state" => Op::SetState(
            v[1].as_u64().ok_or("idx")? as usize,
            v[2].as_str().ok_or("val")?.parse::<u128>().map_err(|e| e.to_string())?,
        ),
        "step" => Op::Step,
        "get" => Op::Get(target_from_json(&v[1])?),
        "snap" => Op::Snap,
        "restore" => Op::Restore(v[1].as_u64().ok_or("idx")? as usize),
        o => return Err(format!("unknown op {o}")),
    })
}

#[derive(Clone, Debug)]
pub struct SimScenario {
    pub sys: Sys,
    pub ops: Vec<Op>,
    /// original text of a shipped design (patronus reads this, the reference model reads `sys`,
    /// which an independent btor2 reader produced from the same text)
    pub btor2_text: Option<String>,
    pub source: String,
    /// construct the simulator with `Interpreter::new_with_trace` (prints every signal before
    /// each step; the values it computes must be the same)
    pub trace: bool,
}

impl SimScenario {
    fn to_json(&self) -> Value {
        json!({"workload": {"kind": "ops", "system": sys_to_json(&self.sys), "source": self.source,
               "original_btor2": self.btor2_text, "constructor": if self.trace { "new_with_trace" } else { "new" },
               "ops": self.ops.iter().map(op_to_json).collect::<Vec<_>>()}})
    }
    fn from_json(v: &Value) -> Result<Self, String> {
        let mut ops = vec![];
        for o in v["workload"]["ops"].as_array().ok_or("ops")? {
            ops.push(op_from_json(o)?);
        }
        Ok(SimScenario {
            sys: sys_from_json(&v["workload"]["system"])?,
            ops,
            btor2_text: v["workload"]["original_btor2"].as_str().map(|s| s.to_string()),
            source: v["workload"]["source"].as_str().unwrap_or("generated").to_string(),
            trace: v["workload"]["constructor"].as_str() == Some("new_with_trace"),
        })
    }
}

/// reference model of the simulator
struct Model<'a> {
    #[allow(dead_code)]
    sys: &'a Sys,
    states: Vec<Val>,
    inputs: Vec<Val>,
    snapshots: Vec<(Vec<Val>, Vec<Val>)>,
}

fn is_zero(v: &Val) -> bool {
    match v {
        Val::B(b) => b.v == 0,
        Val::A(a) => a.default == 0 && a.map.is_empty(),
    }
}

fn fits(v: &Val, ty: Ty) -> bool {
    match (v, ty) {
        (Val::B(b), Ty::Bv(w)) => b.w == w,
        (Val::A(a), Ty::Arr(i, d)) => a.iw == i && a.dw == d,
        _ => false,
    }
}

fn collect_subexprs(ctx: &Context, roots: &[ExprRef]) -> Vec<ExprRef> {
    let mut seen: FxHashSet<ExprRef> = FxHashSet::default();
    let mut out = vec![];
    let mut todo: Vec<ExprRef> = roots.iter().rev().copied().collect();
    while let Some(e) = todo.pop() {
        if !seen.insert(e) {
            continue;
        }
        out.push(e);
        ctx[e].for_each_child(|c| todo.push(*c));
    }
    out
}

fn judge(scn: &SimScenario, acc: &mut Acc) -> Option<Violation> {
    let btor2 = scn.btor2_text.clone().unwrap_or_else(|| scn.sys.to_btor2());
    let sys = &scn.sys;
    let mut result: Option<Violation> = None;
    let mut harness_err: Option<String> = None;
    let mut n_cmp = 0u64;
    let mut probes: FxHashMap<&'static str, u64> = FxHashMap::default();
    let mk = |class: &str, site: String, detail: String| Violation {
        property: "C07".into(),
        oracle: "C07/model".into(),
        class: class.into(),
        site,
        detail,
    };
    let out = guarded(|| {
        let mut ctx = Context::default();
        let psys = patronus::btor2::parse_str(&mut ctx, &btor2, Some("gen"))
            .ok_or_else(|| "HARNESS: btor2 reader rejected a generated system".to_string())?;
        if psys.states.len() != sys.states.len()
            || psys.inputs.len() != sys.inputs.len()
            || psys.outputs.len() != sys.outputs.len()
            || psys.bad_states.len() != sys.bads.len()
            || psys.constraints.len() != sys.constraints.len()
        {
            return Err("HARNESS: parsed system has a different shape than the abstract one".to_string());
        }
        // named intermediate nodes: patronus name -> ExprRef
        let mut named: Vec<(ExprRef, usize)> = vec![];
        for (n, name) in &sys.node_names {
            let clean = name.replace('$', "_");
            for e in psys.names.non_default_value_keys() {
                if let Some(nr) = psys.names[e] {
                    if ctx[nr] == clean {
                        named.push((e, *n));
                    }
                }
            }
        }
        // only expressions over the system's own states and inputs have a "current value"
        // (a dead named node may still mention a state symbol from before the reader renamed it)
        let sys_symbols: FxHashSet<ExprRef> = psys
            .states
            .iter()
            .map(|s| s.symbol)
            .chain(psys.inputs.iter().copied())
            .collect();
        named.retain(|(e, _)| {
            collect_subexprs(&ctx, &[*e])
                .iter()
                .all(|x| !ctx[*x].is_symbol() || sys_symbols.contains(x))
        });
        let inner = collect_subexprs(&ctx, &psys.get_all_exprs());
        let mut sim = if scn.trace { Interpreter::new_with_trace(&ctx, &psys) } else { Interpreter::new(&ctx, &psys) };
        let mut model = Model {
            sys,
            states: sys.states.iter().map(|s| zero_of(s.ty)).collect(),
            inputs: sys.inputs.iter().map(|s| zero_of(s.1)).collect(),
            snapshots: vec![],
        };
        let mut initialised = false;
        let mut last_mut = "none";
        let mut random_reads: FxHashMap<u64, Vec<Val>> = FxHashMap::default();
        use patronus::expr::ExprMap;

        // reads all states and inputs from the simulator
        let read_all = |sim: &Interpreter| -> (Vec<Val>, Vec<Val>) {
            (
                psys.states.iter().map(|s| val_from_baa(&sim.get(s.symbol))).collect(),
                psys.inputs.iter().map(|s| val_from_baa(&sim.get(*s))).collect(),
            )
        };

        for (opi, op) in scn.ops.iter().enumerate() {
            match op {
                Op::Init(kind) => {
                    sim.init(match kind {
                        None => InitKind::Zero,
                        Some(s) => InitKind::Random(*s),
                    });
                    initialised = true;
                    last_mut = "init";
                    let (rs, ri) = read_all(&sim);
                    // sorts of all values
                    for (i, v) in rs.iter().enumerate() {
                        if !fits(v, sys.states[i].ty) {
                            result = Some(mk("IllTypedValue", "state-after-init".into(), format!("op #{opi}: state `{}` reads {} after init", sys.states[i].name, v.show())));
                            return Ok(());
                        }
                    }
                    for (i, v) in ri.iter().enumerate() {
                        if !fits(v, sys.inputs[i].1) {
                            result = Some(mk("IllTypedValue", "input-after-init".into(), format!("op #{opi}: input `{}` reads {} after init", sys.inputs[i].0, v.show())));
                            return Ok(());
                        }
                    }
                    // uninitialised states and inputs: zero, or seed-determined (adopted)
                    model.inputs = ri.clone();
                    for i in 0..sys.states.len() {
                        if sys.states[i].init.is_none() {
                            model.states[i] = rs[i].clone();
                        }
                    }
                    if kind.is_none() {
                        let nz_in = ri.iter().position(|v| !is_zero(v));
                        let nz_st = (0..sys.states.len()).find(|i| sys.states[*i].init.is_none() && !is_zero(&rs[*i]));
                        if nz_in.is_some() || nz_st.is_some() {
                            result = Some(mk("NonZeroAfterZeroInit", "init-zero".into(), format!("op #{opi}: init(Zero) left a non-zero value in an uninitialised state or input")));
                            return Ok(());
                        }
                    }
                    // states with init: init expressions evaluated in state order
                    sys.apply_init(&mut model.states, &model.inputs);
                    for i in 0..sys.states.len() {
                        n_cmp += 1;
                        if rs[i] != model.states[i] {
                            result = Some(mk(
                                "WrongValue",
                                "state-after-init".into(),
                                format!(
                                    "op #{opi} init: state `{}` reads {} but its init expression gives {}",
                                    sys.states[i].name,
                                    rs[i].show(),
                                    model.states[i].show()
                                ),
                            ));
                            return Ok(());
                        }
                    }
                    if let Some(s) = kind {
                        let mut all = rs.clone();
                        all.extend(ri.clone());
                        if let Some(prev) = random_reads.get(s) {
                            *probes.entry("probe.same_seed_reinit_compared").or_insert(0) += 1;
                            if *prev != all {
                                result = Some(mk("SeedNotDeterministic", "init-random".into(), format!("op #{opi}: init(Random({s})) gives different values than the previous init with the same seed")));
                                return Ok(());
                            }
                        } else {
                            random_reads.insert(*s, all);
                        }
                    }
                    if opi > 0 {
                        *probes.entry("probe.reinit_mid_history").or_insert(0) += 1;
                    }
                }
                _ if !initialised => continue,
                Op::SetInput(i, v) => {
                    if sys.inputs.is_empty() {
                        continue;
                    }
                    let i = i % sys.inputs.len();
                    if let Ty::Bv(w) = sys.inputs[i].1 {
                        let b = Bv::new(w, *v);
                        sim.set(psys.inputs[i], &bv_to_baa(b));
                        model.inputs[i] = Val::B(b);
                        last_mut = "set";
                    }
                }
                Op::SetState(i, v) => {
                    if sys.states.is_empty() {
                        continue;
                    }
                    let i = i % sys.states.len();
                    if let Ty::Bv(w) = sys.states[i].ty {
                        let b = Bv::new(w, *v);
                        sim.set(psys.states[i].symbol, &bv_to_baa(b));
                        model.states[i] = Val::B(b);
                        last_mut = "set";
                    }
                }
                Op::Step => {
                    sim.step();
                    let env = StepEnv {
                        inputs: model.inputs.clone(),
                        states: model.states.clone(),
                    };
                    let vals = sys.eval_all(&env);
                    for (i, nx) in sys.next_states(&vals).into_iter().enumerate() {
                        if let Some(v) = nx {
                            model.states[i] = v;
                        }
                    }
                    last_mut = "step";
                    // all states are compared after every step
                    let (rs, _) = read_all(&sim);
                    for i in 0..sys.states.len() {
                        n_cmp += 1;
                        if rs[i] != model.states[i] {
                            result = Some(mk(
                                "WrongValue",
                                "state-after-step".into(),
                                format!(
                                    "op #{opi} step: state `{}` reads {} but the semantics give {}",
                                    sys.states[i].name,
                                    rs[i].show(),
                                    model.states[i].show()
                                ),
                            ));
                            return Ok(());
                        }
                    }
                }
                Op::Snap => {
                    let id = sim.take_snapshot();
                    if id as usize != model.snapshots.len() {
                        result = Some(mk("SnapshotId", "take_snapshot".into(), format!("op #{opi}: snapshot id {id} for the {}-th snapshot", model.snapshots.len())));
                        return Ok(());
                    }
                    model.snapshots.push((model.states.clone(), model.inputs.clone()));
                }
                Op::Restore(k) => {
                    if model.snapshots.is_empty() {
                        continue;
                    }
                    let k = k % model.snapshots.len();
                    if k + 1 < model.snapshots.len() {
                        *probes.entry("probe.restore_non_latest_snapshot").or_insert(0) += 1;
                    }
                    sim.restore_snapshot(k as u32);
                    model.states = model.snapshots[k].0.clone();
                    last_mut = "restore";
                    let (rs, ri) = read_all(&sim);
                    // "the continuation behaves as it did the first time": an input that was set
                    // before the snapshot and is not set again by the continuation is part of that
                    // behaviour, so the input values in force when the snapshot was taken are in
                    // force again (this is what the implementation does: it copies the whole
                    // value store; the trait's doc comment "excluding inputs" promises less than
                    // the property does)
                    model.inputs = model.snapshots[k].1.clone();
                    for i in 0..sys.inputs.len() {
                        n_cmp += 1;
                        if ri[i] != model.inputs[i] {
                            result = Some(mk(
                                "WrongValue",
                                "input-after-restore".into(),
                                format!(
                                    "op #{opi} restore({k}): input `{}` reads {} but had {} when the snapshot was taken, so the continuation does not behave as it did the first time",
                                    sys.inputs[i].0,
                                    ri[i].show(),
                                    model.inputs[i].show()
                                ),
                            ));
                            return Ok(());
                        }
                    }
                    for i in 0..sys.states.len() {
                        n_cmp += 1;
                        if rs[i] != model.states[i] {
                            result = Some(mk(
                                "WrongValue",
                                "state-after-restore".into(),
                                format!(
                                    "op #{opi} restore({k}): state `{}` reads {} but held {} when the snapshot was taken",
                                    sys.states[i].name,
                                    rs[i].show(),
                                    model.states[i].show()
                                ),
                            ));
                            return Ok(());
                        }
                    }
                }
                Op::Get(t) => {
                    let env = StepEnv {
                        inputs: model.inputs.clone(),
                        states: model.states.clone(),
                    };
                    let vals = sys.eval_all(&env);
                    let pick = |n: usize, len: usize| if len == 0 { None } else { Some(n % len) };
                    let (e, expected, what): (ExprRef, Val, String) = match t {
                        Target::State(i) => match pick(*i, sys.states.len()) {
                            Some(i) => (psys.states[i].symbol, model.states[i].clone(), format!("state `{}`", sys.states[i].name)),
                            None => continue,
                        },
                        Target::Input(i) => match pick(*i, sys.inputs.len()) {
                            Some(i) => (psys.inputs[i], model.inputs[i].clone(), format!("input `{}`", sys.inputs[i].0)),
                            None => continue,
                        },
                        Target::Output(i) => match pick(*i, sys.outputs.len()) {
                            Some(i) => (
                                psys.outputs[i].expr,
                                Sys::node_val(&vals, (sys.outputs[i].1, sys.outputs[i].2)),
                                format!("output `{}`", sys.outputs[i].0),
                            ),
                            None => continue,
                        },
                        Target::Bad(i) => match pick(*i, sys.bads.len()) {
                            Some(i) => (psys.bad_states[i], Sys::node_val(&vals, sys.bads[i]), format!("bad #{i}")),
                            None => continue,
                        },
                        Target::Constraint(i) => match pick(*i, sys.constraints.len()) {
                            Some(i) => (psys.constraints[i], Sys::node_val(&vals, sys.constraints[i]), format!("constraint #{i}")),
                            None => continue,
                        },
                        Target::Next(i) => match pick(*i, sys.states.len()) {
                            Some(i) => match (psys.states[i].next, sys.states[i].next) {
                                (Some(e), Some(n)) => (e, Sys::node_val(&vals, n), format!("next function of `{}`", sys.states[i].name)),
                                _ => continue,
                            },
                            None => continue,
                        },
                        Target::InitExpr(i) => match pick(*i, sys.states.len()) {
                            Some(i) => match (psys.states[i].init, &sys.states[i].init) {
                                (Some(e), Some(InitDef::Node(n, ng))) => (e, Sys::node_val(&vals, (*n, *ng)), format!("init expression of `{}`", sys.states[i].name)),
                                (Some(e), Some(InitDef::ArrayFromBv(n, ng))) => {
                                    let d = Sys::node_val(&vals, (*n, *ng)).bv();
                                    let Ty::Arr(iw, dw) = sys.states[i].ty else { continue };
                                    (e, Val::A(Arr::constant(iw, dw, d.v)), format!("init expression of `{}`", sys.states[i].name))
                                }
                                _ => continue,
                            },
                            None => continue,
                        },
                        Target::Named(i) => match pick(*i, named.len()) {
                            Some(i) => (named[i].0, vals[named[i].1].clone(), format!("named node `{}`", sys.node_names[&named[i].1])),
                            None => continue,
                        },
                        Target::Inner(i) => match pick(*i, inner.len()) {
                            Some(i) => {
                                let e = inner[i];
                                // symbol values by name
                                let mut by_name: FxHashMap<String, Val> = FxHashMap::default();
                                for (k, s) in psys.states.iter().enumerate() {
                                    by_name.insert(ctx.get_symbol_name(s.symbol).unwrap().to_string(), model.states[k].clone());
                                }
                                for (k, s) in psys.inputs.iter().enumerate() {
                                    by_name.insert(ctx.get_symbol_name(*s).unwrap().to_string(), model.inputs[k].clone());
                                }
                                let mut memo = FxHashMap::default();
                                match irx::eval(&ctx, e, &|n| by_name.get(n).cloned(), &mut memo) {
                                    Ok(v) => {
                                        use patronus::expr::SerializableIrNode;
                                        (e, v, format!("sub-expression {}", e.serialize_to_str(&ctx)))
                                    }
                                    Err(_) => continue,
                                }
                            }
                            None => continue,
                        },
                    };
                    let got = val_from_baa(&sim.get(e));
                    n_cmp += 1;
                    if got != expected {
                        let tk = format!("{t:?}");
                        let tk = tk.split('(').next().unwrap_or("?").to_string();
                        result = Some(mk(
                            "WrongValue",
                            format!("get-{tk}-after-{last_mut}"),
                            format!("op #{opi}: {what} reads {} but the semantics give {}", got.show(), expected.show()),
                        ));
                        return Ok(());
                    }
                }
            }
        }
        // seed determinism against a second simulator with a different prior history
        if let Some((seed, first)) = random_reads.iter().min_by_key(|(k, _)| **k) {
            let mut sim2 = Interpreter::new(&ctx, &psys);
            sim2.init(InitKind::Zero);
            sim2.step();
            sim2.init(InitKind::Random(*seed));
            let (rs, ri) = read_all(&sim2);
            let mut all = rs;
            all.extend(ri);
            *probes.entry("probe.second_simulator_same_seed").or_insert(0) += 1;
            if all != *first {
                result = Some(mk("SeedNotDeterministic", "init-random-second-simulator".into(), format!("init(Random({seed})) on a second simulator gives different values")));
            }
        }
        Ok(())
    });
    acc.count("values_compared", n_cmp);
    for (k, v) in probes {
        acc.count(k, v);
    }
    let _ = &mut harness_err;
    let v = match out {
        Outcome::Ok(()) => result,
        Outcome::Err(e) if e.starts_with("HARNESS") => {
            acc.stub_failure = Some(e);
            None
        }
        Outcome::Panic { loc, msg } => Some(Violation {
            property: "C07".into(),
            oracle: "C07/model".into(),
            class: "Panic".into(),
            site: loc.clone(),
            detail: format!("simulator panicked at {loc}: {msg}"),
        }),
        other => Some(Violation {
            property: "C07".into(),
            oracle: "C07/model".into(),
            class: other.class().into(),
            site: "interpreter".into(),
            detail: other.describe(),
        }),
    };
    match v {
        Some(v) if filter_known(acc, &v) => None,
        other => other,
    }
}

fn gen_ops(rng: &mut Rng, n: usize) -> Vec<Op> {
    let mut ops = vec![Op::Init(if rng.chance(1, 3) { Some(rng.below(4)) } else { None })];
    let mut snaps = 0usize;
    for _ in 0..n {
        let op = match rng.below(20) {
            0 => Op::Init(if rng.bool() { Some(rng.below(4)) } else { None }),
            1..=4 => Op::SetInput(rng.usize_below(8), rng.bits_shaped(16)),
            5 => Op::SetState(rng.usize_below(8), rng.bits_shaped(16)),
            6..=9 => Op::Step,
            10 => {
                snaps += 1;
                Op::Snap
            }
            11 | 12 => {
                if snaps == 0 {
                    Op::Step
                } else {
                    Op::Restore(rng.usize_below(snaps))
                }
            }
            _ => Op::Get(match rng.below(11) {
                0 => Target::State(rng.usize_below(8)),
                1 => Target::Input(rng.usize_below(8)),
                2 => Target::Output(rng.usize_below(8)),
                3 => Target::Bad(rng.usize_below(8)),
                4 => Target::Constraint(rng.usize_below(8)),
                5 => Target::Next(rng.usize_below(8)),
                6 => Target::InitExpr(rng.usize_below(8)),
                7 => Target::Named(rng.usize_below(16)),
                _ => Target::Inner(rng.usize_below(200)),
            }),
        };
        ops.push(op);
    }
    ops
}

fn ngram_hashes(ops: &[Op], shape: u64, out: &mut std::collections::BTreeSet<u64>) {
    let kinds: Vec<u8> = ops
        .iter()
        .map(|o| match o {
            Op::Init(None) => 0,
            Op::Init(Some(_)) => 1,
            Op::SetInput(..) => 2,
            Op::SetState(..) => 3,
            Op::Step => 4,
            Op::Get(_) => 5,
            Op::Snap => 6,
            Op::Restore(_) => 7,
        })
        .collect();
    for w in kinds.windows(3) {
        out.insert(crate::rng::mix(&[shape, w[0] as u64, w[1] as u64, w[2] as u64]));
    }
}

fn pick_shipped(rng: &mut Rng, tier: Tier) -> Option<(String, String, Sys)> {
    // 120 kB admits every shipped design except inputs/lakeroad/DSP48E2.btor (167 kB): patronus'
    // interpreter evaluates each next-state expression as a tree, without sharing sub-results,
    // and one step of that design does not finish within minutes (a performance matter outside
    // C07; measured with `patsim shipped-sim-costs`, every other design steps in <= 1 ms)
    let max_bytes = if tier == Tier::Thorough { 120_000 } else { 40_000 };
    // no division: patronus' evaluator documents it as unimplemented
    let v = shipped_corpus(max_bytes, 10, false);
    if v.is_empty() { None } else { Some(v[rng.usize_below(v.len())].clone()) }
}

impl Property for C07 {
    fn id(&self) -> &'static str {
        "C07"
    }
    fn runs(&self, tier: Tier) -> usize {
        match tier {
            Tier::Quick => 100_000,
            Tier::Thorough => 8_000_000,
        }
    }

    fn run(&self, run_seed: u64, tier: Tier, acc: &mut Acc) -> Option<(Violation, Value)> {
        let mut rng = Rng::stream(run_seed, "workload");
        let (msb, mib) = match tier {
            Tier::Quick => (12, 6),
            Tier::Thorough => (16, 8),
        };
        // one run in ten uses a design shipped under inputs/ (read independently by refsem)
        let shipped = if rng.chance(1, 10) { pick_shipped(&mut rng, tier) } else { None };
        let from_shipped = shipped.is_some();
        let (sys, btor2_text, source) = match shipped {
            Some((name, text, sys)) => (sys, Some(text), name),
            None => (
                if rng.chance(1, 4) {
                    acc.count("probe.system_with_wide_values_or_many_states", 1);
                    gen_huge_system(&mut rng, |c| {
                        c.init_without_next = true;
                        c.max_outputs = 3;
                        c.named_nodes = true;
                    })
                } else {
                    gen_system(&mut rng, msb, mib, false, |c| {
                        c.division = false;
                        c.init_without_next = true;
                        c.max_outputs = 3;
                        c.named_nodes = true;
                    })
                },
                None,
                "generated".to_string(),
            ),
        };
        acc.count(if from_shipped { "workload.shipped_design" } else { "workload.generated_system" }, 1);
        let mut orng = Rng::stream(run_seed, "ops");
        let n = orng.range(3, 40) as usize;
        let scn = SimScenario {
            sys,
            ops: gen_ops(&mut orng, n),
            btor2_text,
            source,
            trace: !from_shipped && n <= 16 && orng.chance(1, 6),
        };
        acc.count("probe.simulator_built_with_trace", scn.trace as u64);
        acc.evaluations += 1;
        acc.sim_steps += scn.ops.len() as u64;
        ngram_hashes(&scn.ops, shape_hash(&scn.sys), &mut acc.distinct);
        acc.distinct2.insert(shape_hash(&scn.sys));
        acc.count("ops", scn.ops.len() as u64);
        acc.count("probe.system_has_array_state", scn.sys.states.iter().any(|s| !s.ty.is_bv()) as u64);
        acc.count("probe.state_with_init_without_next", scn.sys.states.iter().any(|s| s.init.is_some() && s.next.is_none()) as u64);
        acc.count("probe.init_reads_earlier_state", scn.sys.states.iter().any(|s| matches!(&s.init, Some(InitDef::Node(n, _)) if !matches!(scn.sys.nodes[*n].op, NOp::Const(_)))) as u64);
        if acc.samples.is_empty() {
            acc.samples.push(json!({"btor2": scn.sys.to_btor2(), "ops": scn.ops.iter().map(op_to_json).collect::<Vec<_>>()}));
        }
        judge(&scn, acc).map(|v| (v, scn.to_json()))
    }

    fn replay(&self, scenario: &Value, acc: &mut Acc) -> Result<Option<Violation>, String> {
        Ok(judge(&SimScenario::from_json(scenario)?, acc))
    }

    fn shrink(&self, scenario: &Value) -> Vec<Value> {
        let Ok(scn) = SimScenario::from_json(scenario) else {
            return vec![];
        };
        let mut out = vec![];
        if scn.btor2_text.is_some() {
            // continue on the re-emitted text so that the system itself can be shrunk
            let mut s = scn.clone();
            s.btor2_text = None;
            out.push(s);
        }
        // shorter histories first
        let n = scn.ops.len();
        if n > 2 {
            let mut s = scn.clone();
            s.ops.truncate(n / 2 + 1);
            out.push(s);
        }
        for i in (1..n).rev() {
            let mut s = scn.clone();
            s.ops.remove(i);
            out.push(s);
        }
        for (i, op) in scn.ops.iter().enumerate() {
            if let Op::Init(Some(_)) = op {
                let mut s = scn.clone();
                s.ops[i] = Op::Init(None);
                out.push(s);
            }
        }
        for sys in shrink::candidates(&scn.sys) {
            let mut s = scn.clone();
            s.sys = sys;
            out.push(s);
        }
        out.iter().map(|s| s.to_json()).collect()
    }

    fn meta(&self) -> EvidenceMeta {
        EvidenceMeta {
            level: "exploration",
            rule: "generated systems (bit-vector and array states, states with/without init, init reading earlier states, init-without-next, constant states, swap/rotate shapes, no division) enter patronus as btor2 text; sim::Interpreter is driven by a seeded history of 3..40 operations {init(Zero), init(Random(s)), set(input), set(state), step, get(state|input|output|bad|constraint|next/init root|named node|random sub-expression), take_snapshot, restore_snapshot(any earlier id), re-init} and compared after every operation with a reference model (map + independent evaluator, snapshots = clones): all states after init/step/restore, every get. Random init values are adopted on first read, checked for sort, and checked for determinism against a later init with the same seed and against a second simulator with a different prior history. Distinct by (system shape, op-kind 3-grams).".into(),
            assumptions: vec![
                "a state without next keeps its value in the simulator (the simulator's documented reading)".into(),
                "after restore_snapshot the input values in force when the snapshot was taken are expected to be in force again (needed for `the continuation behaves as it did the first time`; the implementation copies the whole value store)".into(),
            ],
            real_components: vec!["btor2::parse_str", "sim::Interpreter (init, step, set, get, take_snapshot, restore_snapshot)", "sim::InitValueGenerator", "expr::eval_expr"],
            stub_components: vec!["none (the operation history is the schedule; the reference model is the oracle)"],
            distinct_measure: "distinct (system shape, operation-kind 3-gram) pairs".into(),
            distinct2_measure: "distinct system shapes".into(),
        }
    }
}
