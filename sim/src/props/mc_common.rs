//! Shared scenario type for the model-checking properties (C02 C03 C04 C10 C15).

use crate::faults::*;
use crate::sgen::sysgen::{GenCfg, generate};
use crate::harness::Outcome;
use crate::mcrun::*;
use crate::refsem::json::{sys_from_json, sys_to_json};
use crate::refsem::reach::{MAX_INPUT_BITS, MAX_STATE_BITS};
use crate::refsem::shrink;
use crate::refsem::sys::*;
use crate::refsolver::Policy;
use crate::rng::Rng;
use crate::runner::Acc;
use crate::transport::*;
use serde_json::{Value, json};

#[derive(Clone, Debug)]
pub struct McScenario {
    pub sys: Sys,
    pub cfg: McCfg,
    /// seed of the solver's answer policy and of the transport perturbation
    pub sim_seed: u64,
    /// canonical solver policy (first-found zero-biased model, full cores, single-line `#b` prints)
    pub canonical_policy: bool,
    /// benign transport perturbation (short reads/writes, EINTR, exit lag)
    pub benign: bool,
    pub faults: Vec<Fault>,
    /// original text of a shipped design: patronus reads this; `sys` was read from the same text
    /// by the independent reader of refsem
    pub original_btor2: Option<String>,
}

pub fn engine_to_json(e: &Engine) -> Value {
    match e {
        Engine::Bmc {
            individually,
            check_constraints,
            k,
        } => json!({"kind": "bmc", "individually": individually, "check_constraints": check_constraints, "k": k}),
        Engine::Pdr { disable_cores } => json!({"kind": "pdr", "disable_cores": disable_cores}),
    }
}

pub fn engine_from_json(v: &Value) -> Result<Engine, String> {
    match v["kind"].as_str() {
        Some("bmc") => Ok(Engine::Bmc {
            individually: v["individually"].as_bool().ok_or("individually")?,
            check_constraints: v["check_constraints"].as_bool().ok_or("check_constraints")?,
            k: v["k"].as_u64().ok_or("k")?,
        }),
        Some("pdr") => Ok(Engine::Pdr {
            disable_cores: v["disable_cores"].as_bool().ok_or("disable_cores")?,
        }),
        _ => Err("engine kind".into()),
    }
}

pub fn fault_to_json(f: &Fault) -> Value {
    let at = match &f.at {
        FaultAt::Response(n) => json!({"response": n}),
        FaultAt::Command(n) => json!({"command": n}),
        FaultAt::Spawn(n) => json!({"spawn": n}),
        FaultAt::ProcResponse(s, r) => json!({"session": s, "session_response": r}),
    };
    let kind = match &f.kind {
        FaultKind::ErrReply { msg, dies } => json!({"kind": "err-reply", "msg": msg, "dies": dies}),
        FaultKind::Unknown { reason } => json!({"kind": "unknown", "reason": reason}),
        FaultKind::Empty { eof } => json!({"kind": "empty", "eof": eof}),
        FaultKind::Truncated { cut_permille, status } => {
            json!({"kind": "truncated+exit", "cut_permille": cut_permille, "status": status})
        }
        FaultKind::Exit { when, status, stderr } => json!({
            "kind": "exit", "before_read": *when == ExitWhen::BeforeRead, "status": status, "stderr": stderr
        }),
        FaultKind::ExitAfterReply { status, stderr } => {
            json!({"kind": "exit-after-reply", "status": status, "stderr": stderr})
        }
        FaultKind::Garbage { text, exit } => json!({"kind": "garbage", "text": text, "exit": exit}),
        FaultKind::SpawnFail => json!({"kind": "spawn-fail"}),
    };
    json!({"at": at, "fault": kind})
}

pub fn fault_from_json(v: &Value) -> Result<Fault, String> {
    let at = if let Some(n) = v["at"]["response"].as_u64() {
        FaultAt::Response(n as usize)
    } else if let Some(n) = v["at"]["command"].as_u64() {
        FaultAt::Command(n as usize)
    } else if let Some(n) = v["at"]["spawn"].as_u64() {
        FaultAt::Spawn(n as usize)
    } else if let (Some(s), Some(r)) = (v["at"]["session"].as_u64(), v["at"]["session_response"].as_u64()) {
        FaultAt::ProcResponse(s as usize, r as usize)
    } else {
        return Err("fault.at".into());
    };
    let k = &v["fault"];
    let s = |key: &str| k[key].as_str().unwrap_or("").to_string();
    let kind = match k["kind"].as_str().ok_or("fault.kind")? {
        "err-reply" => FaultKind::ErrReply {
            msg: s("msg"),
            dies: k["dies"].as_bool().unwrap_or(false),
        },
        "unknown" => FaultKind::Unknown {
            reason: k["reason"].as_bool().unwrap_or(false),
        },
        "empty" => FaultKind::Empty {
            eof: k["eof"].as_bool().unwrap_or(false),
        },
        "truncated+exit" => FaultKind::Truncated {
            cut_permille: k["cut_permille"].as_u64().unwrap_or(500) as u32,
            status: k["status"].as_i64().unwrap_or(1) as i32,
        },
        "exit" => FaultKind::Exit {
            when: if k["before_read"].as_bool().unwrap_or(false) {
                ExitWhen::BeforeRead
            } else {
                ExitWhen::AfterRead
            },
            status: k["status"].as_i64().unwrap_or(1) as i32,
            stderr: s("stderr"),
        },
        "exit-after-reply" => FaultKind::ExitAfterReply {
            status: k["status"].as_i64().unwrap_or(1) as i32,
            stderr: s("stderr"),
        },
        "garbage" => FaultKind::Garbage {
            text: s("text"),
            exit: k["exit"].as_i64().map(|x| x as i32),
        },
        "spawn-fail" => FaultKind::SpawnFail,
        other => return Err(format!("unknown fault kind {other}")),
    };
    Ok(Fault { at, kind })
}

impl McScenario {
    pub fn to_json(&self) -> Value {
        json!({
            "workload": {"kind": "system", "system": sys_to_json(&self.sys), "original_btor2": self.original_btor2},
            "config": {
                "profile": PROFILE_NAMES[self.cfg.profile],
                "simplify": self.cfg.simplify,
                "engine": engine_to_json(&self.cfg.engine),
            },
            "sim_seed": format!("{:#x}", self.sim_seed),
            "canonical_policy": self.canonical_policy,
            "benign_transport": self.benign,
            "faults": self.faults.iter().map(fault_to_json).collect::<Vec<_>>(),
        })
    }

    pub fn from_json(v: &Value) -> Result<Self, String> {
        let sys = sys_from_json(&v["workload"]["system"])?;
        let pname = v["config"]["profile"].as_str().ok_or("profile")?;
        let profile = PROFILE_NAMES
            .iter()
            .position(|p| *p == pname)
            .ok_or("unknown profile")?;
        let seed_txt = v["sim_seed"].as_str().ok_or("sim_seed")?;
        let sim_seed = u64::from_str_radix(seed_txt.trim_start_matches("0x"), 16)
            .map_err(|e| e.to_string())?;
        let mut faults = vec![];
        if let Some(fs) = v["faults"].as_array() {
            for f in fs {
                faults.push(fault_from_json(f)?);
            }
        }
        Ok(McScenario {
            sys,
            cfg: McCfg {
                profile,
                simplify: v["config"]["simplify"].as_bool().ok_or("simplify")?,
                engine: engine_from_json(&v["config"]["engine"])?,
            },
            sim_seed,
            canonical_policy: v["canonical_policy"].as_bool().unwrap_or(false),
            benign: v["benign_transport"].as_bool().unwrap_or(true),
            faults,
            original_btor2: v["workload"]["original_btor2"].as_str().map(|s| s.to_string()),
        })
    }

    pub fn policy(&self) -> Policy {
        if self.canonical_policy {
            Policy::canonical()
        } else {
            Policy::random(&mut Rng::stream(self.sim_seed, "policy"))
        }
    }

    /// executes the scenario against real patronus code
    pub fn execute(&self, record_text: bool) -> McObservation {
        let tcfg = TransportCfg {
            benign: self.benign,
            record_text,
            ..Default::default()
        };
        let world = World::new(
            self.sim_seed,
            tcfg,
            self.policy(),
            FaultPlan {
                faults: self.faults.clone(),
            },
        );
        let btor2 = self.original_btor2.clone().unwrap_or_else(|| self.sys.to_btor2());
        let run = run_mc(&world, &btor2, &self.cfg);
        let w = world.borrow();
        if std::env::var("PATSIM_WIRE").is_ok() {
            for e in &w.wire {
                eprintln!("> {}", e.cmd);
                if !e.reply.is_empty() {
                    eprintln!("< {}", e.reply.trim_end());
                }
                if let Some(err) = &e.solver_error {
                    eprintln!("  !! {err}");
                }
            }
            eprintln!("outcome: {}", run.outcome.describe());
        }
        let mut stub_failure = None;
        for p in &w.procs {
            if let Some(f) = &p.solver.stub_failure {
                stub_failure = Some(f.clone());
            }
        }
        McObservation {
            outcome: run.outcome,
            parsed: run.parsed,
            from_solver_msg: run.from_solver_msg,
            err_variant: run.err_variant,
            wire: w.wire.clone(),
            fired: w.fired.clone(),
            tstats: w.stats.clone(),
            sstats: w.procs.iter().map(|p| p.solver.stats.clone()).collect(),
            log_hash: w.log_hash,
            log_text: w.log_text.clone(),
            stub_failure,
            n_response_points: w.response_points(),
            n_command_points: w.command_points(),
            n_procs: w.procs.len(),
            given_values: w.procs.iter().map(|p| p.solver.given_values.len()).sum(),
        }
    }

    /// shrink candidates: environment first, then the system
    pub fn shrink(&self) -> Vec<McScenario> {
        let mut out = vec![];
        if self.original_btor2.is_some() {
            // continue on the re-emitted text so that the system itself can be shrunk
            let mut s = self.clone();
            s.original_btor2 = None;
            out.push(s);
        }
        if self.benign {
            let mut s = self.clone();
            s.benign = false;
            out.push(s);
        }
        if !self.canonical_policy {
            let mut s = self.clone();
            s.canonical_policy = true;
            out.push(s);
        }
        if self.cfg.simplify {
            let mut s = self.clone();
            s.cfg.simplify = false;
            out.push(s);
        }
        if let Engine::Bmc {
            individually,
            check_constraints,
            k,
        } = &self.cfg.engine
        {
            if *k > 1 {
                for nk in [1, *k / 2, *k - 1] {
                    if nk >= 1 && nk < *k {
                        let mut s = self.clone();
                        s.cfg.engine = Engine::Bmc {
                            individually: *individually,
                            check_constraints: *check_constraints,
                            k: nk,
                        };
                        out.push(s);
                    }
                }
            }
            if *check_constraints {
                let mut s = self.clone();
                s.cfg.engine = Engine::Bmc {
                    individually: *individually,
                    check_constraints: false,
                    k: *k,
                };
                out.push(s);
            }
            if *individually {
                let mut s = self.clone();
                s.cfg.engine = Engine::Bmc {
                    individually: false,
                    check_constraints: *check_constraints,
                    k: *k,
                };
                out.push(s);
            }
        }
        for sys in shrink::candidates(&self.sys) {
            if sys.bads.is_empty() {
                continue;
            }
            let mut s = self.clone();
            s.sys = sys;
            out.push(s);
        }
        out
    }
}

pub struct McObservation {
    pub outcome: Outcome<Verdict>,
    pub parsed: Option<ParsedInfo>,
    pub from_solver_msg: Option<String>,
    pub err_variant: Option<&'static str>,
    pub wire: Vec<WireEntry>,
    pub fired: Vec<FiredFault>,
    pub tstats: TransportStats,
    pub sstats: Vec<crate::refsolver::SolverStats>,
    pub log_hash: u64,
    pub log_text: Vec<String>,
    pub stub_failure: Option<String>,
    pub n_response_points: usize,
    pub n_command_points: usize,
    pub n_procs: usize,
    pub given_values: usize,
}

impl McObservation {
    /// first command that the reference solver rejected in this conversation (not counting
    /// injected faults)
    pub fn first_solver_error(&self) -> Option<&WireEntry> {
        self.wire
            .iter()
            .find(|w| w.solver_error.is_some() && w.fault.is_none())
    }

    /// adds the standard counters of a simulated conversation to the accumulator
    pub fn account(&self, acc: &mut Acc) {
        acc.sim_steps += self.tstats.events;
        acc.log_hash = acc.log_hash.rotate_left(9) ^ self.log_hash;
        acc.count("transport.events", self.tstats.events);
        acc.max("transport.events_in_one_run", self.tstats.events);
        acc.max("transport.commands_in_one_run", self.tstats.commands);
        acc.count("transport.spawns", self.tstats.spawns);
        acc.count("transport.commands", self.tstats.commands);
        acc.count("transport.response_points", self.tstats.response_points);
        acc.count("fault.benign.short_write", self.tstats.short_writes);
        acc.count("fault.benign.short_read", self.tstats.short_reads);
        acc.count("fault.benign.eintr_write", self.tstats.eintr_write);
        acc.count("fault.benign.eintr_read", self.tstats.eintr_read);
        acc.count("fault.benign.exit_visibility_lag", self.tstats.exit_lag);
        acc.count("transport.epipe_seen", self.tstats.epipe);
        acc.count("transport.eof_reads", self.tstats.eof_reads);
        for f in &self.fired {
            acc.count(&format!("fault.{}", f.fault.kind.class()), 1);
        }
        for s in &self.sstats {
            acc.count("solver.checks", s.checks);
            acc.count("solver.sat", s.sat);
            acc.count("solver.unsat", s.unsat);
            acc.count("solver.get_value", s.get_values);
            acc.count("solver.get_unsat_assumptions", s.get_cores);
            acc.count("solver.policy.core_minimal", s.core_minimal);
            acc.count("solver.policy.core_full", s.core_full);
            acc.count("solver.policy.core_mid", s.core_mid);
            acc.count("solver.policy.respelled_cores", s.respelled_cores);
            acc.count("probe.reply_spanned_lines", s.multiline_replies);
            acc.count("probe.hex_value_printed", s.hex_values);
            acc.count("probe.array_value_printed", s.array_values);
            acc.count("probe.let_in_value", s.let_values);
            acc.count("probe.shadowed_store_in_value", s.shadow_values);
            acc.count("probe.push_depth_ge_1", (s.max_push_depth >= 1) as u64);
        }
        acc.count("probe.restart_taken", (self.n_procs > 1) as u64);
        if acc.stub_failure.is_none() {
            acc.stub_failure = self.stub_failure.clone();
        }
    }
}

/// coarse category of a reference-solver rejection (stable strings: used in finding signatures)
pub fn categorize_solver_error(msg: &str) -> &'static str {
    if msg.contains("STUB-LIMIT") {
        "stub-limit"
    } else if msg.contains("as const") {
        "as-const-rejected"
    } else if msg.contains("already declared") {
        "redefinition"
    } else if msg.contains("unknown constant") || msg.contains("unknown function") {
        "use-before-definition"
    } else if msg.contains("model is not available") {
        "get-value-outside-sat"
    } else if msg.contains("unsat assumptions") {
        "unsat-assumptions-unavailable"
    } else if msg.contains("not supported") {
        "unsupported-command"
    } else if msg.contains("Sort")
        || msg.contains("expects")
        || msg.contains("sort")
        || msg.contains("not Bool")
    {
        "ill-sorted"
    } else if msg.contains("logic") {
        "logic"
    } else if msg.contains("parse error") {
        "syntax"
    } else {
        "other"
    }
}

/// Generates a system that fits the exhaustive oracle.
pub fn gen_system(rng: &mut Rng, max_state_bits: u32, max_input_bits: u32, bv_only: bool, mut tweak: impl FnMut(&mut GenCfg)) -> Sys {
    loop {
        let mut cfg = GenCfg::swarm(rng, max_state_bits, max_input_bits);
        if bv_only {
            cfg.arrays = false;
        }
        tweak(&mut cfg);
        let sys = generate(rng, &cfg);
        if sys.bads.is_empty() {
            continue;
        }
        if sys.state_bits() > max_state_bits.min(MAX_STATE_BITS)
            || sys.input_bits() > (max_input_bits + 4).min(MAX_INPUT_BITS)
        {
            continue;
        }
        if bv_only && (sys.states.iter().any(|s| !s.ty.is_bv()) || sys.inputs.iter().any(|s| !s.1.is_bv())) {
            continue;
        }
        return sys;
    }
}

/// shape hash of a system: operators and types, not constants or names
pub fn shape_hash(sys: &Sys) -> u64 {
    let mut s = String::new();
    for n in &sys.nodes {
        s.push_str(n.op.btor_name());
        s.push_str(&format!("{:?};", n.ty));
    }
    for st in &sys.states {
        s.push_str(&format!(
            "S{:?}{}{};",
            st.ty,
            st.init.is_some() as u8,
            st.next.is_some() as u8
        ));
    }
    s.push_str(&format!("b{}c{}", sys.bads.len(), sys.constraints.len()));
    crate::rng::fnv1a(s.as_bytes())
}

pub fn conversation_shape(wire: &[WireEntry]) -> u64 {
    let mut s = String::new();
    for w in wire {
        s.push_str(w.kind.short());
        s.push(',');
    }
    crate::rng::fnv1a(s.as_bytes())
}

/// Like `gen_system`, but bounds the length of a PDR run on the system by the oracle's diameter:
/// full-fixpoint depth and minimal bad depth <= `max_depth` (a workload bound, not a watchdog).
pub fn gen_bounded_system(
    rng: &mut Rng,
    max_state_bits: u32,
    max_input_bits: u32,
    bv_only: bool,
    max_depth: u32,
    mut tweak: impl FnMut(&mut GenCfg),
) -> Sys {
    loop {
        let sys = gen_system(rng, max_state_bits, max_input_bits, bv_only, &mut tweak);
        let r = crate::refsem::reach::reach(&sys, 0);
        if r.fixpoint_depth <= max_depth && r.min_bad_depth.map(|d| d <= max_depth).unwrap_or(true) {
            return sys;
        }
    }
}

/// Designs shipped under /repo/inputs that the reference domain can model, read by the
/// independent btor2 reader: (path, original text, abstract system). Cached per thread and
/// parameter set; sorted by path, so the choice by index is deterministic.
pub fn shipped_corpus(max_bytes: usize, max_index_width: u32, allow_division: bool) -> std::rc::Rc<Vec<(String, String, Sys)>> {
    type Key = (usize, u32, bool);
    thread_local! {
        static CACHE: std::cell::RefCell<Vec<(Key, std::rc::Rc<Vec<(String, String, Sys)>>)>> = const { std::cell::RefCell::new(vec![]) };
    }
    let key = (max_bytes, max_index_width, allow_division);
    CACHE.with(|c| {
        if let Some((_, v)) = c.borrow().iter().find(|(k, _)| *k == key) {
            return v.clone();
        }
        let mut v = vec![];
        let mut dirs = vec![std::path::PathBuf::from("/repo/inputs")];
        let mut files = vec![];
        while let Some(d) = dirs.pop() {
            if let Ok(rd) = std::fs::read_dir(&d) {
                for e in rd.flatten() {
                    let p = e.path();
                    if p.is_dir() {
                        dirs.push(p);
                    } else if p.extension().and_then(|x| x.to_str()).map(|x| x.starts_with("btor")).unwrap_or(false) {
                        files.push(p);
                    }
                }
            }
        }
        files.sort();
        for p in files {
            let Ok(bytes) = std::fs::read(&p) else { continue };
            if bytes.len() > max_bytes {
                continue;
            }
            let text = String::from_utf8_lossy(&bytes).to_string();
            if let Ok(sys) = crate::refsem::btor2in::read_btor2(&text) {
                let small_arrays = sys
                    .nodes
                    .iter()
                    .map(|n| n.ty)
                    .all(|t| match t {
                        Ty::Arr(i, _) => i <= max_index_width,
                        _ => true,
                    });
                if small_arrays && (allow_division || !sys.uses_division()) && !sys.states.is_empty() {
                    v.push((p.display().to_string(), text, sys));
                }
            }
        }
        let rc = std::rc::Rc::new(v);
        c.borrow_mut().push((key, rc.clone()));
        rc
    })
}

/// rough size of the bit-blasted transition relation of one step (gates), used to keep
/// model-checking workloads on shipped designs cheap for the reference solver
pub fn mc_cost(sys: &Sys) -> u64 {
    let mut c = 0u64;
    for n in &sys.nodes {
        let w = match n.ty {
            Ty::Bv(w) => w as u64,
            Ty::Arr(i, d) => (1u64 << i.min(20)) * d as u64,
        };
        c += match n.op {
            NOp::Bin(crate::val::BinOp::Mul) => 6 * w * w,
            NOp::Bin(
                crate::val::BinOp::Udiv
                | crate::val::BinOp::Urem
                | crate::val::BinOp::Sdiv
                | crate::val::BinOp::Srem
                | crate::val::BinOp::Smod,
            ) => 12 * w * w,
            NOp::Bin(crate::val::BinOp::Shl | crate::val::BinOp::Lshr | crate::val::BinOp::Ashr) => 8 * w,
            NOp::Read | NOp::Write => {
                let a = sys.nodes[n.args[0]].ty;
                match a {
                    Ty::Arr(i, d) => 3 * (1u64 << i.min(20)) * d as u64,
                    _ => w,
                }
            }
            _ => 2 * w,
        };
    }
    c
}

/// shipped designs that are cheap enough for model checking against the reference solver
pub fn shipped_for_mc(max_bytes: usize) -> Vec<(String, String, Sys)> {
    shipped_corpus(max_bytes, 4, true)
        .iter()
        .filter(|(_, _, sys)| {
            let wide_arith = sys.nodes.iter().any(|n| {
                matches!(
                    n.op,
                    NOp::Bin(
                        crate::val::BinOp::Mul
                            | crate::val::BinOp::Udiv
                            | crate::val::BinOp::Urem
                            | crate::val::BinOp::Sdiv
                            | crate::val::BinOp::Srem
                            | crate::val::BinOp::Smod
                    )
                ) && matches!(n.ty, Ty::Bv(w) if w > 8)
            });
            mc_cost(sys) <= 450 && !wide_arith && !sys.bads.is_empty()
        })
        .cloned()
        .collect()
}

/// a system for checks whose oracle does not enumerate states: wide values, more states/inputs
pub fn gen_huge_system(rng: &mut Rng, mut tweak: impl FnMut(&mut GenCfg)) -> Sys {
    loop {
        let mut cfg = GenCfg::swarm(rng, 16, 8);
        cfg.huge = true;
        cfg.max_state_bits = 2048;
        cfg.max_input_bits = 1024;
        cfg.division = false;
        tweak(&mut cfg);
        let sys = generate(rng, &cfg);
        if sys.bads.is_empty() {
            continue;
        }
        return sys;
    }
}
