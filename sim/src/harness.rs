//! Running patronus code inside the simulation: panic capture, outcome classes, stdio silencing,
//! value conversion between baa and the reference domain.

use crate::transport::*;
use crate::val::*;
use baa::{ArrayOps, BitVecOps};
use std::cell::{Cell, RefCell};
use std::panic::{AssertUnwindSafe, catch_unwind};
use std::sync::Once;

#[derive(Clone, Debug, PartialEq, Eq)]
pub enum Outcome<T> {
    Ok(T),
    Err(String),
    Panic { loc: String, msg: String },
    Deadlock(String),
    Livelock(String),
    FuelExhausted,
}

impl<T> Outcome<T> {
    pub fn class(&self) -> &'static str {
        match self {
            Outcome::Ok(_) => "Ok",
            Outcome::Err(_) => "Err",
            Outcome::Panic { .. } => "Panic",
            Outcome::Deadlock(_) => "Deadlock",
            Outcome::Livelock(_) => "Livelock",
            Outcome::FuelExhausted => "FuelExhausted",
        }
    }
    pub fn describe(&self) -> String
    where
        T: std::fmt::Debug,
    {
        match self {
            Outcome::Ok(v) => format!("Ok({v:?})"),
            Outcome::Err(e) => format!("Err({e})"),
            Outcome::Panic { loc, msg } => format!("Panic at {loc}: {msg}"),
            Outcome::Deadlock(d) => format!("Deadlock: {d}"),
            Outcome::Livelock(d) => format!("Livelock: {d}"),
            Outcome::FuelExhausted => "FuelExhausted".into(),
        }
    }
}

thread_local! {
    static LAST_PANIC: RefCell<Option<(String, String)>> = const { RefCell::new(None) };
    /// set by the panic hook; the transport stops raising sentinels once a panic is in flight
    pub static PANICKED: Cell<bool> = const { Cell::new(false) };
}

static HOOK: Once = Once::new();

pub fn install_panic_hook() {
    HOOK.call_once(|| {
        std::panic::set_hook(Box::new(|info| {
            let loc = info
                .location()
                .map(|l| format!("{}:{}", l.file(), l.line()))
                .unwrap_or_else(|| "?".into());
            let msg = if let Some(s) = info.payload().downcast_ref::<&str>() {
                s.to_string()
            } else if let Some(s) = info.payload().downcast_ref::<String>() {
                s.clone()
            } else if info.payload().downcast_ref::<SimAbort>().is_some() {
                "<sim abort>".to_string()
            } else if info
                .payload()
                .downcast_ref::<patronus::verif_fuel::FuelExhausted>()
                .is_some()
            {
                "<fuel exhausted>".to_string()
            } else {
                "<non-string panic payload>".to_string()
            };
            PANICKED.with(|p| p.set(true));
            LAST_PANIC.with(|l| {
                let mut l = l.borrow_mut();
                // keep the first panic of a run
                if l.is_none() {
                    *l = Some((loc, msg));
                }
            });
        }));
    });
}

/// Runs `f` (patronus code) with panics captured and classified.
pub fn guarded<T>(f: impl FnOnce() -> Result<T, String>) -> Outcome<T> {
    install_panic_hook();
    LAST_PANIC.with(|l| *l.borrow_mut() = None);
    PANICKED.with(|p| p.set(false));
    let res = catch_unwind(AssertUnwindSafe(f));
    let out = match res {
        Ok(Ok(v)) => Outcome::Ok(v),
        Ok(Err(e)) => Outcome::Err(e),
        Err(payload) => {
            if let Some(a) = payload.downcast_ref::<SimAbort>() {
                match a {
                    SimAbort::Deadlock(d) => Outcome::Deadlock(d.clone()),
                    SimAbort::Livelock(d) => Outcome::Livelock(d.clone()),
                }
            } else if payload
                .downcast_ref::<patronus::verif_fuel::FuelExhausted>()
                .is_some()
            {
                Outcome::FuelExhausted
            } else {
                let (loc, msg) = LAST_PANIC
                    .with(|l| l.borrow().clone())
                    .unwrap_or(("?".into(), "?".into()));
                Outcome::Panic {
                    loc: shorten_loc(&loc),
                    msg,
                }
            }
        }
    };
    PANICKED.with(|p| p.set(false));
    out
}

/// Runs `f` with a simulated process table installed behind patronus' solver seam.
pub fn guarded_with_world<T>(world: &WorldRef, f: impl FnOnce() -> Result<T, String>) -> Outcome<T> {
    patronus::smt::verif_seam::set_spawner(make_spawner(world.clone()));
    let out = guarded(f);
    patronus::smt::verif_seam::clear_spawner();
    out
}

fn shorten_loc(loc: &str) -> String {
    // make locations independent of where the repository is checked out
    if let Some(p) = loc.find("patronus") {
        loc[p..].to_string()
    } else if let Some(p) = loc.find("/src/") {
        loc[p + 1..].to_string()
    } else {
        loc.to_string()
    }
}

// -------------------------------------------------------------------------------------------------
// stdio silencing: patronus prints warnings and parser diagnostics from library code
// -------------------------------------------------------------------------------------------------

pub struct Stdio {
    saved_out: i32,
}

static SAVED_OUT: std::sync::atomic::AtomicI32 = std::sync::atomic::AtomicI32::new(-1);

/// writes to the original stdout from any thread (used by the watchdog before exiting)
pub fn emergency_say(s: &str) {
    let fd = SAVED_OUT.load(std::sync::atomic::Ordering::SeqCst);
    let fd = if fd >= 0 { fd } else { 1 };
    unsafe {
        let b = s.as_bytes();
        let mut off = 0;
        while off < b.len() {
            let n = libc::write(fd, b[off..].as_ptr() as *const _, b.len() - off);
            if n <= 0 {
                break;
            }
            off += n as usize;
        }
    }
}

impl Stdio {
    /// redirects fd 1 and 2 to /dev/null; the harness reports through `say`
    pub fn silence() -> Self {
        unsafe {
            let saved_out = libc::dup(1);
            let null = libc::open(c"/dev/null".as_ptr(), libc::O_WRONLY);
            if null >= 0 && std::env::var("PATSIM_NOISY").is_err() {
                libc::dup2(null, 1);
                libc::dup2(null, 2);
                libc::close(null);
            }
            SAVED_OUT.store(saved_out, std::sync::atomic::Ordering::SeqCst);
            Stdio { saved_out }
        }
    }

    pub fn say(&self, s: &str) {
        let mut line = s.to_string();
        line.push('\n');
        unsafe {
            let mut off = 0;
            let b = line.as_bytes();
            while off < b.len() {
                let n = libc::write(self.saved_out, b[off..].as_ptr() as *const _, b.len() - off);
                if n <= 0 {
                    break;
                }
                off += n as usize;
            }
        }
    }
}

// -------------------------------------------------------------------------------------------------
// value conversion
// -------------------------------------------------------------------------------------------------

pub fn bv_from_baa(v: &impl BitVecOps) -> Bv {
    let w = v.width();
    assert!(w <= 128, "width {w} too large for the reference domain");
    let s = v.to_bit_str();
    Bv::new(w, u128::from_str_radix(&s, 2).unwrap())
}

pub fn val_from_baa(v: &baa::Value) -> Val {
    match v {
        baa::Value::BitVec(b) => Val::B(bv_from_baa(b)),
        baa::Value::Array(a) => {
            let iw = a.index_width();
            let dw = a.data_width();
            assert!(iw <= 16);
            let elems: Vec<u128> = (0..(1u64 << iw))
                .map(|i| {
                    let idx = baa::BitVecValue::from_u64(i, iw);
                    bv_from_baa(&a.select(&idx)).v
                })
                .collect();
            Val::A(Arr::from_elements(iw, dw, &elems))
        }
    }
}

pub fn bv_to_baa(b: Bv) -> baa::BitVecValue {
    baa::BitVecValue::from_u128(b.v, b.w)
}
