//! An independent, minimal btor2 reader into the abstract system AST (written from the btor2
//! format description; shares nothing with patronus' reader). Used to run the shipped designs
//! under `inputs/` through the reference semantics.

use super::sys::*;
use crate::rng::mask;
use crate::val::{BinOp, CmpOp};
use std::collections::BTreeMap;

#[derive(Debug)]
pub enum ReadError {
    /// uses something the reference domain does not model (width > 128, rol/ror, overflow ops, fair …)
    Unsupported(String),
    Malformed(String),
}

pub fn read_btor2(text: &str) -> Result<Sys, ReadError> {
    let mut sys = Sys {
        name: "shipped".into(),
        ..Default::default()
    };
    let mut sorts: BTreeMap<i64, Ty> = BTreeMap::new();
    let mut node_of: BTreeMap<i64, NodeId> = BTreeMap::new();
    let mut state_of_line: BTreeMap<i64, usize> = BTreeMap::new();
    let bad = |m: &str, line: &str| ReadError::Malformed(format!("{m}: `{line}`"));
    for raw in text.lines() {
        let line = raw.split(';').next().unwrap_or("").trim();
        if line.is_empty() {
            continue;
        }
        let t: Vec<&str> = line.split_whitespace().collect();
        if t.len() < 2 {
            return Err(bad("too few tokens", line));
        }
        let id: i64 = t[0].parse().map_err(|_| bad("line id", line))?;
        let op = t[1];
        let num = |s: &str| -> Result<i64, ReadError> { s.parse::<i64>().map_err(|_| bad("number", line)) };
        let sort_of = |s: &str| -> Result<Ty, ReadError> {
            let k = num(s)?;
            sorts.get(&k).copied().ok_or_else(|| bad("unknown sort", line))
        };
        let operand = |s: &str| -> Result<(NodeId, bool), ReadError> {
            let k = num(s)?;
            let n = node_of.get(&k.abs()).copied().ok_or_else(|| bad("unknown operand", line))?;
            Ok((n, k < 0))
        };
        match op {
            "sort" => {
                if t.len() < 4 {
                    return Err(bad("sort", line));
                }
                let ty = match t[2] {
                    "bitvec" => {
                        let w = num(t[3])?;
                        if w < 1 || w > 128 {
                            return Err(ReadError::Unsupported(format!("bit-vector width {w}")));
                        }
                        Ty::Bv(w as u32)
                    }
                    "array" => {
                        if t.len() < 5 {
                            return Err(bad("array sort", line));
                        }
                        match (sort_of(t[3])?, sort_of(t[4])?) {
                            (Ty::Bv(i), Ty::Bv(d)) => Ty::Arr(i, d),
                            _ => return Err(ReadError::Unsupported("nested array".into())),
                        }
                    }
                    _ => return Err(bad("sort kind", line)),
                };
                sorts.insert(id, ty);
            }
            "input" => {
                let ty = sort_of(t[2])?;
                let name = t.get(3).map(|s| s.to_string()).unwrap_or_else(|| format!("_input_{id}"));
                let i = sys.inputs.len();
                sys.inputs.push((name, ty));
                node_of.insert(id, sys.add(NOp::Input(i), vec![], vec![], ty));
            }
            "state" => {
                let ty = sort_of(t[2])?;
                let name = t.get(3).map(|s| s.to_string()).unwrap_or_else(|| format!("_state_{id}"));
                let i = sys.states.len();
                sys.states.push(StateDef {
                    name,
                    ty,
                    init: None,
                    next: None,
                });
                state_of_line.insert(id, i);
                node_of.insert(id, sys.add(NOp::State(i), vec![], vec![], ty));
            }
            "zero" | "one" | "ones" | "const" | "constd" | "consth" => {
                let ty = sort_of(t[2])?;
                let Ty::Bv(w) = ty else {
                    return Err(bad("constant of array sort", line));
                };
                let v: u128 = match op {
                    "zero" => 0,
                    "one" => 1,
                    "ones" => mask(w),
                    _ => {
                        let s = t.get(3).ok_or_else(|| bad("missing value", line))?;
                        match op {
                            "const" => u128::from_str_radix(s, 2).map_err(|_| bad("binary value", line))?,
                            "consth" => u128::from_str_radix(s, 16).map_err(|_| bad("hex value", line))?,
                            _ => {
                                if let Some(neg) = s.strip_prefix('-') {
                                    let m: u128 = neg.parse().map_err(|_| bad("decimal value", line))?;
                                    (!m).wrapping_add(1)
                                } else {
                                    s.parse::<u128>().map_err(|_| bad("decimal value", line))?
                                }
                            }
                        }
                    }
                };
                node_of.insert(id, sys.add(NOp::Const(v & mask(w)), vec![], vec![], ty));
            }
            "init" | "next" => {
                if t.len() < 5 {
                    return Err(bad("init/next", line));
                }
                let sid = num(t[3])?;
                let st = *state_of_line.get(&sid).ok_or_else(|| bad("unknown state", line))?;
                let (n, neg) = operand(t[4])?;
                if op == "init" {
                    let sty = sys.states[st].ty;
                    let nty = sys.ty(n);
                    sys.states[st].init = Some(if sty == nty {
                        InitDef::Node(n, neg)
                    } else if matches!((sty, nty), (Ty::Arr(_, d), Ty::Bv(w)) if d == w) {
                        InitDef::ArrayFromBv(n, neg)
                    } else {
                        return Err(bad("init type", line));
                    });
                } else {
                    sys.states[st].next = Some((n, neg));
                }
            }
            "bad" => sys.bads.push(operand(t[2])?),
            "constraint" => sys.constraints.push(operand(t[2])?),
            "output" => {
                let (n, neg) = operand(t[2])?;
                let name = t.get(3).map(|s| s.to_string()).unwrap_or_else(|| format!("_output_{id}"));
                sys.outputs.push((name, n, neg));
            }
            "fair" | "justice" => return Err(ReadError::Unsupported(op.into())),
            _ => {
                // operators
                let ty = sort_of(t[2])?;
                let un = |o: NOp| -> Result<(NOp, usize), ReadError> { Ok((o, 1)) };
                let (nop, arity): (NOp, usize) = match op {
                    "not" => un(NOp::Not)?,
                    "neg" => un(NOp::Neg)?,
                    "redand" => un(NOp::Redand)?,
                    "redor" => un(NOp::Redor)?,
                    "redxor" => un(NOp::Redxor)?,
                    "inc" | "dec" => {
                        // x + 1 / x - 1 through an explicit constant node
                        let (a, na) = operand(t[3])?;
                        let Ty::Bv(w) = ty else { return Err(bad("inc/dec sort", line)) };
                        let one = sys.add(NOp::Const(1), vec![], vec![], Ty::Bv(w));
                        let o = if op == "inc" { BinOp::Add } else { BinOp::Sub };
                        node_of.insert(id, sys.add(NOp::Bin(o), vec![a, one], vec![na, false], ty));
                        continue;
                    }
                    "slice" => {
                        let hi = num(t.get(4).ok_or_else(|| bad("slice", line))?)? as u32;
                        let lo = num(t.get(5).ok_or_else(|| bad("slice", line))?)? as u32;
                        (NOp::Slice(hi, lo), 1)
                    }
                    "uext" => (NOp::Uext(num(t.get(4).ok_or_else(|| bad("uext", line))?)? as u32), 1),
                    "sext" => (NOp::Sext(num(t.get(4).ok_or_else(|| bad("sext", line))?)? as u32), 1),
                    "and" => (NOp::Bin(BinOp::And), 2),
                    "or" => (NOp::Bin(BinOp::Or), 2),
                    "xor" => (NOp::Bin(BinOp::Xor), 2),
                    "nand" => (NOp::Nand, 2),
                    "nor" => (NOp::Nor, 2),
                    "xnor" => (NOp::Xnor, 2),
                    "add" => (NOp::Bin(BinOp::Add), 2),
                    "sub" => (NOp::Bin(BinOp::Sub), 2),
                    "mul" => (NOp::Bin(BinOp::Mul), 2),
                    "udiv" => (NOp::Bin(BinOp::Udiv), 2),
                    "urem" => (NOp::Bin(BinOp::Urem), 2),
                    "sdiv" => (NOp::Bin(BinOp::Sdiv), 2),
                    "srem" => (NOp::Bin(BinOp::Srem), 2),
                    "smod" => (NOp::Bin(BinOp::Smod), 2),
                    "sll" => (NOp::Bin(BinOp::Shl), 2),
                    "srl" => (NOp::Bin(BinOp::Lshr), 2),
                    "sra" => (NOp::Bin(BinOp::Ashr), 2),
                    "eq" => (NOp::Eq, 2),
                    "neq" => (NOp::Neq, 2),
                    "ult" => (NOp::Cmp(CmpOp::Ult), 2),
                    "ulte" => (NOp::Cmp(CmpOp::Ule), 2),
                    "ugt" => (NOp::Cmp(CmpOp::Ugt), 2),
                    "ugte" => (NOp::Cmp(CmpOp::Uge), 2),
                    "slt" => (NOp::Cmp(CmpOp::Slt), 2),
                    "slte" => (NOp::Cmp(CmpOp::Sle), 2),
                    "sgt" => (NOp::Cmp(CmpOp::Sgt), 2),
                    "sgte" => (NOp::Cmp(CmpOp::Sge), 2),
                    "implies" => (NOp::Implies, 2),
                    "iff" => (NOp::Iff, 2),
                    "concat" => (NOp::Concat, 2),
                    "read" => (NOp::Read, 2),
                    "ite" => (NOp::Ite, 3),
                    "write" => (NOp::Write, 3),
                    other => return Err(ReadError::Unsupported(format!("operator {other}"))),
                };
                if t.len() < 3 + arity {
                    return Err(bad("operands", line));
                }
                let mut args = vec![];
                let mut negs = vec![];
                for k in 0..arity {
                    let (n, ng) = operand(t[3 + k])?;
                    args.push(n);
                    negs.push(ng);
                }
                node_of.insert(id, sys.add(nop, args, negs, ty));
            }
        }
    }
    // states with neither init nor next are inputs (appended after the declared inputs, in order)
    crate::sgen::sysgen::demote_orphan_states(&mut sys);
    Ok(sys)
}
