//! JSON (de)serialisation of abstract systems for replay files.

use super::sys::*;
use crate::val::{BinOp, CmpOp};
use serde_json::{Value, json};

const BIN: &[(BinOp, &str)] = &[
    (BinOp::And, "and"),
    (BinOp::Or, "or"),
    (BinOp::Xor, "xor"),
    (BinOp::Add, "add"),
    (BinOp::Sub, "sub"),
    (BinOp::Mul, "mul"),
    (BinOp::Udiv, "udiv"),
    (BinOp::Urem, "urem"),
    (BinOp::Sdiv, "sdiv"),
    (BinOp::Srem, "srem"),
    (BinOp::Smod, "smod"),
    (BinOp::Shl, "sll"),
    (BinOp::Lshr, "srl"),
    (BinOp::Ashr, "sra"),
];
const CMP: &[(CmpOp, &str)] = &[
    (CmpOp::Ult, "ult"),
    (CmpOp::Ule, "ulte"),
    (CmpOp::Ugt, "ugt"),
    (CmpOp::Uge, "ugte"),
    (CmpOp::Slt, "slt"),
    (CmpOp::Sle, "slte"),
    (CmpOp::Sgt, "sgt"),
    (CmpOp::Sge, "sgte"),
];

pub fn op_to_str(op: &NOp) -> String {
    match op {
        NOp::Input(i) => format!("input:{i}"),
        NOp::State(i) => format!("state:{i}"),
        NOp::Const(c) => format!("const:{c}"),
        NOp::Slice(h, l) => format!("slice:{h}:{l}"),
        NOp::Uext(k) => format!("uext:{k}"),
        NOp::Sext(k) => format!("sext:{k}"),
        other => other.btor_name().to_string(),
    }
}

pub fn op_from_str(s: &str) -> Result<NOp, String> {
    let parts: Vec<&str> = s.split(':').collect();
    let num = |i: usize| -> Result<u128, String> {
        parts
            .get(i)
            .ok_or_else(|| format!("missing parameter in {s}"))?
            .parse::<u128>()
            .map_err(|e| e.to_string())
    };
    Ok(match parts[0] {
        "input" => NOp::Input(num(1)? as usize),
        "state" => NOp::State(num(1)? as usize),
        "const" => NOp::Const(num(1)?),
        "slice" => NOp::Slice(num(1)? as u32, num(2)? as u32),
        "uext" => NOp::Uext(num(1)? as u32),
        "sext" => NOp::Sext(num(1)? as u32),
        "not" => NOp::Not,
        "neg" => NOp::Neg,
        "redand" => NOp::Redand,
        "redor" => NOp::Redor,
        "redxor" => NOp::Redxor,
        "nand" => NOp::Nand,
        "nor" => NOp::Nor,
        "xnor" => NOp::Xnor,
        "eq" => NOp::Eq,
        "neq" => NOp::Neq,
        "implies" => NOp::Implies,
        "iff" => NOp::Iff,
        "concat" => NOp::Concat,
        "ite" => NOp::Ite,
        "read" => NOp::Read,
        "write" => NOp::Write,
        other => {
            if let Some((b, _)) = BIN.iter().find(|(_, n)| *n == other) {
                NOp::Bin(*b)
            } else if let Some((c, _)) = CMP.iter().find(|(_, n)| *n == other) {
                NOp::Cmp(*c)
            } else {
                return Err(format!("unknown op {other}"));
            }
        }
    })
}

fn ty_to_json(t: Ty) -> Value {
    match t {
        Ty::Bv(w) => json!([w]),
        Ty::Arr(i, d) => json!([i, d]),
    }
}

fn ty_from_json(v: &Value) -> Result<Ty, String> {
    let a = v.as_array().ok_or("type must be an array")?;
    let n = |i: usize| a[i].as_u64().map(|x| x as u32).ok_or("bad type".to_string());
    match a.len() {
        1 => Ok(Ty::Bv(n(0)?)),
        2 => Ok(Ty::Arr(n(0)?, n(1)?)),
        _ => Err("bad type".into()),
    }
}

fn ref_to_json(r: (NodeId, bool)) -> Value {
    json!([r.0, r.1])
}

fn ref_from_json(v: &Value) -> Result<(NodeId, bool), String> {
    let a = v.as_array().ok_or("ref must be an array")?;
    Ok((
        a[0].as_u64().ok_or("bad ref")? as usize,
        a[1].as_bool().ok_or("bad ref")?,
    ))
}

pub fn sys_to_json(s: &Sys) -> Value {
    json!({
        "name": s.name,
        "nodes": s.nodes.iter().map(|n| json!({
            "op": op_to_str(&n.op), "args": n.args, "neg": n.neg, "ty": ty_to_json(n.ty)
        })).collect::<Vec<_>>(),
        "inputs": s.inputs.iter().map(|(n, t)| json!([n, ty_to_json(*t)])).collect::<Vec<_>>(),
        "orphan_inputs": s.orphan_inputs,
        "states": s.states.iter().map(|st| json!({
            "name": st.name, "ty": ty_to_json(st.ty),
            "init": match &st.init {
                None => Value::Null,
                Some(InitDef::Node(n, g)) => json!({"node": ref_to_json((*n, *g))}),
                Some(InitDef::ArrayFromBv(n, g)) => json!({"array_from_bv": ref_to_json((*n, *g))}),
            },
            "next": st.next.map(ref_to_json).unwrap_or(Value::Null),
        })).collect::<Vec<_>>(),
        "constraints": s.constraints.iter().map(|r| ref_to_json(*r)).collect::<Vec<_>>(),
        "bads": s.bads.iter().map(|r| ref_to_json(*r)).collect::<Vec<_>>(),
        "outputs": s.outputs.iter().map(|(n, r, g)| json!([n, r, g])).collect::<Vec<_>>(),
        "node_names": s.node_names.iter().map(|(k, v)| json!([k, v])).collect::<Vec<_>>(),
        "btor2": s.to_btor2(),
    })
}

pub fn sys_from_json(v: &Value) -> Result<Sys, String> {
    let mut s = Sys {
        name: v["name"].as_str().unwrap_or("").to_string(),
        ..Default::default()
    };
    for n in v["nodes"].as_array().ok_or("nodes")? {
        let op = op_from_str(n["op"].as_str().ok_or("op")?)?;
        let args: Vec<NodeId> = n["args"]
            .as_array()
            .ok_or("args")?
            .iter()
            .map(|a| a.as_u64().unwrap() as usize)
            .collect();
        let neg: Vec<bool> = n["neg"]
            .as_array()
            .ok_or("neg")?
            .iter()
            .map(|a| a.as_bool().unwrap())
            .collect();
        s.nodes.push(Node {
            op,
            args,
            neg,
            ty: ty_from_json(&n["ty"])?,
        });
    }
    for i in v["inputs"].as_array().ok_or("inputs")? {
        s.inputs
            .push((i[0].as_str().ok_or("input name")?.to_string(), ty_from_json(&i[1])?));
    }
    if let Some(o) = v["orphan_inputs"].as_array() {
        s.orphan_inputs = o.iter().map(|x| x.as_u64().unwrap() as usize).collect();
    }
    for st in v["states"].as_array().ok_or("states")? {
        let init = if st["init"].is_null() {
            None
        } else if !st["init"]["node"].is_null() {
            let r = ref_from_json(&st["init"]["node"])?;
            Some(InitDef::Node(r.0, r.1))
        } else {
            let r = ref_from_json(&st["init"]["array_from_bv"])?;
            Some(InitDef::ArrayFromBv(r.0, r.1))
        };
        let next = if st["next"].is_null() {
            None
        } else {
            Some(ref_from_json(&st["next"])?)
        };
        s.states.push(StateDef {
            name: st["name"].as_str().ok_or("state name")?.to_string(),
            ty: ty_from_json(&st["ty"])?,
            init,
            next,
        });
    }
    for r in v["constraints"].as_array().ok_or("constraints")? {
        s.constraints.push(ref_from_json(r)?);
    }
    for r in v["bads"].as_array().ok_or("bads")? {
        s.bads.push(ref_from_json(r)?);
    }
    for o in v["outputs"].as_array().ok_or("outputs")? {
        s.outputs.push((
            o[0].as_str().ok_or("output name")?.to_string(),
            o[1].as_u64().ok_or("output node")? as usize,
            o[2].as_bool().ok_or("output neg")?,
        ));
    }
    if let Some(nn) = v["node_names"].as_array() {
        for e in nn {
            s.node_names
                .insert(e[0].as_u64().unwrap() as usize, e[1].as_str().unwrap().to_string());
        }
    }
    Ok(s)
}
