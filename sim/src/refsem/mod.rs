pub mod btor2in;
pub mod json;
pub mod reach;
pub mod shrink;
pub mod sys;
