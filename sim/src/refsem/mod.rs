pub mod json;
pub mod reach;
pub mod shrink;
pub mod sys;
