//! Explicit-state reachability for small abstract systems: the oracle for BMC and PDR verdicts.
//! Model-checking semantics: a state without init is unconstrained initially; a state without
//! next is unconstrained in every step (the generator avoids that shape for verdict checks).

use super::sys::*;
use crate::val::*;

pub const MAX_STATE_BITS: u32 = 16;
pub const MAX_INPUT_BITS: u32 = 8;

fn unpack(ty: Ty, bits: u64) -> Val {
    match ty {
        Ty::Bv(w) => Val::B(Bv::new(w, bits as u128)),
        Ty::Arr(i, d) => {
            let n = 1usize << i;
            let elems: Vec<u128> = (0..n)
                .map(|k| ((bits >> (k as u32 * d)) as u128) & crate::rng::mask(d))
                .collect();
            Val::A(Arr::from_elements(i, d, &elems))
        }
    }
}

fn pack(ty: Ty, v: &Val) -> u64 {
    match (ty, v) {
        (Ty::Bv(_), Val::B(b)) => b.v as u64,
        (Ty::Arr(i, d), Val::A(a)) => {
            let mut out = 0u64;
            for k in 0..(1u64 << i) {
                out |= (a.select(k as u128).v as u64) << (k as u32 * d);
            }
            out
        }
        _ => panic!("type/value mismatch"),
    }
}

pub fn unpack_all(tys: &[Ty], mut bits: u64) -> Vec<Val> {
    let mut out = Vec::with_capacity(tys.len());
    for ty in tys {
        let n = ty.bits();
        let m = if n >= 64 { u64::MAX } else { (1u64 << n) - 1 };
        out.push(unpack(*ty, bits & m));
        bits = if n >= 64 { 0 } else { bits >> n };
    }
    out
}

pub fn pack_all(tys: &[Ty], vals: &[Val]) -> u64 {
    let mut out = 0u64;
    let mut shift = 0u32;
    for (ty, v) in tys.iter().zip(vals.iter()) {
        out |= pack(*ty, v) << shift;
        shift += ty.bits();
    }
    out
}

#[derive(Clone, Debug)]
pub struct ReachResult {
    /// minimal depth at which some bad state holds on a constraint-respecting execution
    pub min_bad_depth: Option<u32>,
    /// number of distinct reachable states (over constraint-respecting executions)
    pub reachable: usize,
    /// depth at which the frontier became empty (full fixpoint)
    pub fixpoint_depth: u32,
    /// for each depth 0..: which bads can hold there (exact-depth sets), until `depth_limit`
    pub bads_at_depth: Vec<Vec<usize>>,
    /// whether some step has no constraint-satisfying (state, input) pair at all reachable depths
    pub constraints_dead_at: Option<u32>,
}

/// Exhaustive reachability. `exact_depth_limit`: compute exact-depth layers (not only the BFS
/// frontier) up to this depth for `bads_at_depth` / `constraints_dead_at`.
pub fn reach(sys: &Sys, exact_depth_limit: u32) -> ReachResult {
    let sb = sys.state_bits();
    let ib = sys.input_bits();
    assert!(sb <= MAX_STATE_BITS, "too many state bits: {sb}");
    assert!(ib <= MAX_INPUT_BITS, "too many input bits: {ib}");
    let n_states = 1usize << sb;
    let n_inputs = 1u64 << ib;
    let stys: Vec<Ty> = sys.states.iter().map(|s| s.ty).collect();
    let itys: Vec<Ty> = sys.inputs.iter().map(|s| s.1).collect();

    // initial states
    let mut init_set = vec![false; n_states];
    let zero_inputs: Vec<Val> = itys.iter().map(|t| zero_of(*t)).collect();
    for raw in 0..n_states as u64 {
        let mut vals = unpack_all(&stys, raw);
        // only enumerate over states without init: skip raws that differ in init-ed positions
        // (cheap way: apply init and re-pack; duplicates collapse)
        sys.apply_init(&mut vals, &zero_inputs);
        init_set[pack_all(&stys, &vals) as usize] = true;
    }
    let free_next: Vec<usize> = sys
        .states
        .iter()
        .enumerate()
        .filter(|(_, s)| s.next.is_none())
        .map(|(i, _)| i)
        .collect();

    // per state: successors, whether some input satisfies constraints, which bads can hold
    struct Info {
        succ: Vec<u32>,
        bads: Vec<usize>,
        live: bool,
    }
    let mut info_cache: Vec<Option<Info>> = (0..n_states).map(|_| None).collect();
    let compute = |raw: usize| -> Info {
        let svals = unpack_all(&stys, raw as u64);
        let mut succ: Vec<u32> = vec![];
        let mut bads: Vec<usize> = vec![];
        let mut live = false;
        for iraw in 0..n_inputs {
            let env = StepEnv {
                inputs: unpack_all(&itys, iraw),
                states: svals.clone(),
            };
            let vals = sys.eval_all(&env);
            if !sys.constraints_hold(&vals) {
                continue;
            }
            live = true;
            for b in sys.bads_holding(&vals) {
                if !bads.contains(&b) {
                    bads.push(b);
                }
            }
            let nx = sys.next_states(&vals);
            // states without next are free: enumerate their valuations
            let mut base: Vec<Val> = nx
                .iter()
                .enumerate()
                .map(|(i, v)| v.clone().unwrap_or_else(|| zero_of(stys[i])))
                .collect();
            if free_next.is_empty() {
                succ.push(pack_all(&stys, &base) as u32);
            } else {
                let free_bits: u32 = free_next.iter().map(|i| stys[*i].bits()).sum();
                for fr in 0..(1u64 << free_bits) {
                    let mut rest = fr;
                    for i in &free_next {
                        let nb = stys[*i].bits();
                        base[*i] = unpack_all(&[stys[*i]], rest & ((1u64 << nb) - 1)).pop().unwrap();
                        rest >>= nb;
                    }
                    succ.push(pack_all(&stys, &base) as u32);
                }
            }
        }
        succ.sort_unstable();
        succ.dedup();
        bads.sort_unstable();
        Info { succ, bads, live }
    };

    // BFS by frontier for min depth and full fixpoint
    let mut visited = vec![false; n_states];
    let mut frontier: Vec<usize> = (0..n_states).filter(|s| init_set[*s]).collect();
    for s in &frontier {
        visited[*s] = true;
    }
    let mut depth = 0u32;
    let mut min_bad_depth = None;
    let mut reachable = 0usize;
    while !frontier.is_empty() {
        let mut next_frontier = vec![];
        for s in &frontier {
            if info_cache[*s].is_none() {
                info_cache[*s] = Some(compute(*s));
            }
            let info = info_cache[*s].as_ref().unwrap();
            if info.live {
                reachable += 1;
            }
            if !info.bads.is_empty() && min_bad_depth.is_none() {
                min_bad_depth = Some(depth);
            }
            for t in &info.succ {
                if !visited[*t as usize] {
                    visited[*t as usize] = true;
                    next_frontier.push(*t as usize);
                }
            }
        }
        frontier = next_frontier;
        depth += 1;
    }
    let fixpoint_depth = depth;

    // exact-depth layers
    let mut bads_at_depth = vec![];
    let mut constraints_dead_at = None;
    let mut layer: Vec<bool> = init_set.clone();
    for d in 0..=exact_depth_limit {
        let mut bads_here: Vec<usize> = vec![];
        let mut next_layer = vec![false; n_states];
        let mut any_live = false;
        for s in 0..n_states {
            if !layer[s] {
                continue;
            }
            if info_cache[s].is_none() {
                info_cache[s] = Some(compute(s));
            }
            let info = info_cache[s].as_ref().unwrap();
            any_live |= info.live;
            for b in &info.bads {
                if !bads_here.contains(b) {
                    bads_here.push(*b);
                }
            }
            for t in &info.succ {
                next_layer[*t as usize] = true;
            }
        }
        bads_here.sort_unstable();
        bads_at_depth.push(bads_here);
        if !any_live && constraints_dead_at.is_none() {
            constraints_dead_at = Some(d);
        }
        layer = next_layer;
    }

    ReachResult {
        min_bad_depth,
        reachable,
        fixpoint_depth,
        bads_at_depth,
        constraints_dead_at,
    }
}
