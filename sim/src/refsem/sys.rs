//! Abstract transition systems (the generator's own AST, independent of patronus' IR), their
//! reference semantics, and a btor2 emitter.

use crate::val::*;
use std::collections::BTreeMap;

#[derive(Clone, Copy, PartialEq, Eq, Debug, Hash, PartialOrd, Ord)]
pub enum Ty {
    Bv(u32),
    Arr(u32, u32),
}

impl Ty {
    pub fn bits(&self) -> u32 {
        match self {
            Ty::Bv(w) => *w,
            Ty::Arr(i, d) => (1u32 << i) * d,
        }
    }
    pub fn is_bv(&self) -> bool {
        matches!(self, Ty::Bv(_))
    }
    pub fn width(&self) -> u32 {
        match self {
            Ty::Bv(w) => *w,
            _ => panic!("array has no width"),
        }
    }
}

pub type NodeId = usize;

#[derive(Clone, Copy, PartialEq, Eq, Debug)]
pub enum NOp {
    Input(usize),
    State(usize),
    Const(u128),
    Not,
    Neg,
    Redand,
    Redor,
    Redxor,
    Bin(BinOp),
    Nand,
    Nor,
    Xnor,
    Cmp(CmpOp),
    Eq,
    Neq,
    Implies,
    Iff,
    Concat,
    Slice(u32, u32),
    Uext(u32),
    Sext(u32),
    Ite,
    Read,
    Write,
}

impl NOp {
    pub fn btor_name(&self) -> &'static str {
        match self {
            NOp::Input(_) => "input",
            NOp::State(_) => "state",
            NOp::Const(_) => "const",
            NOp::Not => "not",
            NOp::Neg => "neg",
            NOp::Redand => "redand",
            NOp::Redor => "redor",
            NOp::Redxor => "redxor",
            NOp::Bin(b) => match b {
                BinOp::And => "and",
                BinOp::Or => "or",
                BinOp::Xor => "xor",
                BinOp::Add => "add",
                BinOp::Sub => "sub",
                BinOp::Mul => "mul",
                BinOp::Udiv => "udiv",
                BinOp::Urem => "urem",
                BinOp::Sdiv => "sdiv",
                BinOp::Srem => "srem",
                BinOp::Smod => "smod",
                BinOp::Shl => "sll",
                BinOp::Lshr => "srl",
                BinOp::Ashr => "sra",
            },
            NOp::Nand => "nand",
            NOp::Nor => "nor",
            NOp::Xnor => "xnor",
            NOp::Cmp(c) => match c {
                CmpOp::Ult => "ult",
                CmpOp::Ule => "ulte",
                CmpOp::Ugt => "ugt",
                CmpOp::Uge => "ugte",
                CmpOp::Slt => "slt",
                CmpOp::Sle => "slte",
                CmpOp::Sgt => "sgt",
                CmpOp::Sge => "sgte",
            },
            NOp::Eq => "eq",
            NOp::Neq => "neq",
            NOp::Implies => "implies",
            NOp::Iff => "iff",
            NOp::Concat => "concat",
            NOp::Slice(..) => "slice",
            NOp::Uext(_) => "uext",
            NOp::Sext(_) => "sext",
            NOp::Ite => "ite",
            NOp::Read => "read",
            NOp::Write => "write",
        }
    }
    pub fn is_division(&self) -> bool {
        matches!(
            self,
            NOp::Bin(BinOp::Udiv | BinOp::Urem | BinOp::Sdiv | BinOp::Srem | BinOp::Smod)
        )
    }
}

#[derive(Clone, Debug)]
pub struct Node {
    pub op: NOp,
    pub args: Vec<NodeId>,
    /// btor2 negated operand reference (`-id`): bitwise not of that operand
    pub neg: Vec<bool>,
    pub ty: Ty,
}

#[derive(Clone, Debug, PartialEq, Eq)]
pub enum InitDef {
    /// init expression of the state's own type
    Node(NodeId, bool),
    /// bit-vector node assigned to an array state: constant array
    ArrayFromBv(NodeId, bool),
}

#[derive(Clone, Debug)]
pub struct StateDef {
    pub name: String,
    pub ty: Ty,
    pub init: Option<InitDef>,
    /// (node, negated)
    pub next: Option<(NodeId, bool)>,
}

#[derive(Clone, Debug, Default)]
pub struct Sys {
    pub name: String,
    pub nodes: Vec<Node>,
    pub inputs: Vec<(String, Ty)>,
    pub states: Vec<StateDef>,
    pub constraints: Vec<(NodeId, bool)>,
    pub bads: Vec<(NodeId, bool)>,
    pub outputs: Vec<(String, NodeId, bool)>,
    pub node_names: BTreeMap<NodeId, String>,
    /// inputs that are written as `state` lines without init/next (the reader demotes them)
    pub orphan_inputs: Vec<usize>,
}

/// values of all inputs and states in one step
#[derive(Clone, Debug, PartialEq)]
pub struct StepEnv {
    pub inputs: Vec<Val>,
    pub states: Vec<Val>,
}

pub fn zero_of(ty: Ty) -> Val {
    match ty {
        Ty::Bv(w) => Val::B(Bv::new(w, 0)),
        Ty::Arr(i, d) => Val::A(Arr::constant(i, d, 0)),
    }
}

fn not_val(v: &Val) -> Val {
    match v {
        Val::B(b) => Val::B(bv_not(*b)),
        Val::A(_) => panic!("cannot negate an array reference"),
    }
}

impl Sys {
    pub fn add(&mut self, op: NOp, args: Vec<NodeId>, neg: Vec<bool>, ty: Ty) -> NodeId {
        debug_assert_eq!(args.len(), neg.len());
        self.nodes.push(Node { op, args, neg, ty });
        self.nodes.len() - 1
    }

    pub fn ty(&self, n: NodeId) -> Ty {
        self.nodes[n].ty
    }

    pub fn state_bits(&self) -> u32 {
        self.states.iter().map(|s| s.ty.bits()).sum()
    }
    pub fn input_bits(&self) -> u32 {
        self.inputs.iter().map(|s| s.1.bits()).sum()
    }

    /// node id of the `state` / `input` leaf
    pub fn state_node(&self, i: usize) -> NodeId {
        self.nodes
            .iter()
            .position(|n| n.op == NOp::State(i))
            .expect("state node")
    }
    pub fn input_node(&self, i: usize) -> NodeId {
        self.nodes
            .iter()
            .position(|n| n.op == NOp::Input(i))
            .expect("input node")
    }

    pub fn uses_division(&self) -> bool {
        self.nodes.iter().any(|n| n.op.is_division())
    }

    /// evaluates all nodes (they are in topological order)
    pub fn eval_all(&self, env: &StepEnv) -> Vec<Val> {
        let mut vals: Vec<Val> = Vec::with_capacity(self.nodes.len());
        for node in &self.nodes {
            let arg = |i: usize| -> Val {
                let v = &vals[node.args[i]];
                if node.neg[i] { not_val(v) } else { v.clone() }
            };
            let b = |x: bool| Val::B(Bv::from_bool(x));
            let v = match node.op {
                NOp::Input(i) => env.inputs[i].clone(),
                NOp::State(i) => env.states[i].clone(),
                NOp::Const(c) => Val::B(Bv::new(node.ty.width(), c)),
                NOp::Not => not_val(&arg(0)),
                NOp::Neg => Val::B(bv_neg(arg(0).bv())),
                NOp::Redand => {
                    let a = arg(0).bv();
                    b(a.v == crate::rng::mask(a.w))
                }
                NOp::Redor => b(arg(0).bv().v != 0),
                NOp::Redxor => b(arg(0).bv().v.count_ones() % 2 == 1),
                NOp::Bin(op) => Val::B(bin_op(op, arg(0).bv(), arg(1).bv())),
                NOp::Nand => Val::B(bv_not(bin_op(BinOp::And, arg(0).bv(), arg(1).bv()))),
                NOp::Nor => Val::B(bv_not(bin_op(BinOp::Or, arg(0).bv(), arg(1).bv()))),
                NOp::Xnor => Val::B(bv_not(bin_op(BinOp::Xor, arg(0).bv(), arg(1).bv()))),
                NOp::Cmp(op) => b(cmp_op(op, arg(0).bv(), arg(1).bv())),
                NOp::Eq => b(arg(0) == arg(1)),
                NOp::Neq => b(arg(0) != arg(1)),
                NOp::Implies => b(!arg(0).bv().is_true() || arg(1).bv().is_true()),
                NOp::Iff => b(arg(0).bv().is_true() == arg(1).bv().is_true()),
                NOp::Concat => Val::B(concat(arg(0).bv(), arg(1).bv())),
                NOp::Slice(hi, lo) => Val::B(extract(arg(0).bv(), hi, lo)),
                NOp::Uext(k) => Val::B(zext(arg(0).bv(), k)),
                NOp::Sext(k) => Val::B(sext(arg(0).bv(), k)),
                NOp::Ite => {
                    if arg(0).bv().is_true() {
                        arg(1)
                    } else {
                        arg(2)
                    }
                }
                NOp::Read => Val::B(arg(0).arr().select(arg(1).bv().v)),
                NOp::Write => Val::A(arg(0).arr().store(arg(1).bv().v, arg(2).bv().v)),
            };
            vals.push(v);
        }
        vals
    }

    pub fn node_val(vals: &[Val], r: (NodeId, bool)) -> Val {
        if r.1 { not_val(&vals[r.0]) } else { vals[r.0].clone() }
    }

    /// Applies the init expressions in state order on top of `states` (which provides the values of
    /// states without init). Inputs are needed only because nodes may mention them.
    pub fn apply_init(&self, states: &mut [Val], inputs: &[Val]) {
        for (i, st) in self.states.iter().enumerate() {
            if let Some(init) = &st.init {
                let env = StepEnv {
                    inputs: inputs.to_vec(),
                    states: states.to_vec(),
                };
                let vals = self.eval_all(&env);
                states[i] = match init {
                    InitDef::Node(n, neg) => Self::node_val(&vals, (*n, *neg)),
                    InitDef::ArrayFromBv(n, neg) => {
                        let d = Self::node_val(&vals, (*n, *neg)).bv();
                        match st.ty {
                            Ty::Arr(iw, dw) => {
                                debug_assert_eq!(dw, d.w);
                                Val::A(Arr::constant(iw, dw, d.v))
                            }
                            _ => unreachable!(),
                        }
                    }
                };
            }
        }
    }

    /// next-state values for states that have a next function (`None` otherwise)
    pub fn next_states(&self, vals: &[Val]) -> Vec<Option<Val>> {
        self.states
            .iter()
            .map(|s| s.next.map(|n| Self::node_val(vals, n)))
            .collect()
    }

    pub fn constraints_hold(&self, vals: &[Val]) -> bool {
        self.constraints
            .iter()
            .all(|c| Self::node_val(vals, *c).bv().is_true())
    }

    pub fn bads_holding(&self, vals: &[Val]) -> Vec<usize> {
        self.bads
            .iter()
            .enumerate()
            .filter(|(_, c)| Self::node_val(vals, **c).bv().is_true())
            .map(|(i, _)| i)
            .collect()
    }

    // -------------------------------------------------------------------------------------------
    // btor2 emission
    // -------------------------------------------------------------------------------------------
    pub fn to_btor2(&self) -> String {
        let mut out = String::new();
        let mut next_id = 1usize;
        let mut sorts: BTreeMap<Ty, usize> = BTreeMap::new();
        let mut lines: Vec<String> = vec![];
        if !self.name.is_empty() {
            out.push_str(&format!("; {}\n", self.name));
        }
        // sort ids are allocated on demand, before the line that needs them
        fn sort_id(
            ty: Ty,
            sorts: &mut BTreeMap<Ty, usize>,
            next_id: &mut usize,
            lines: &mut Vec<String>,
        ) -> usize {
            if let Some(id) = sorts.get(&ty) {
                return *id;
            }
            let id = match ty {
                Ty::Bv(w) => {
                    let id = *next_id;
                    *next_id += 1;
                    lines.push(format!("{id} sort bitvec {w}"));
                    id
                }
                Ty::Arr(i, d) => {
                    let ii = sort_id(Ty::Bv(i), sorts, next_id, lines);
                    let dd = sort_id(Ty::Bv(d), sorts, next_id, lines);
                    let id = *next_id;
                    *next_id += 1;
                    lines.push(format!("{id} sort array {ii} {dd}"));
                    id
                }
            };
            sorts.insert(ty, id);
            id
        }
        let mut ids: Vec<usize> = vec![0; self.nodes.len()];
        let r = |ids: &Vec<usize>, n: NodeId, neg: bool| -> String {
            if neg {
                format!("-{}", ids[n])
            } else {
                format!("{}", ids[n])
            }
        };
        for (n, node) in self.nodes.iter().enumerate() {
            let s = sort_id(node.ty, &mut sorts, &mut next_id, &mut lines);
            let id = next_id;
            next_id += 1;
            ids[n] = id;
            let args: Vec<String> = node
                .args
                .iter()
                .zip(node.neg.iter())
                .map(|(a, ng)| r(&ids, *a, *ng))
                .collect();
            let name = self
                .node_names
                .get(&n)
                .map(|s| format!(" {s}"))
                .unwrap_or_default();
            let line = match node.op {
                NOp::Input(i) if self.orphan_inputs.contains(&i) => {
                    format!("{id} state {s} {}", self.inputs[i].0)
                }
                NOp::Input(i) => format!("{id} input {s} {}", self.inputs[i].0),
                NOp::State(i) => format!("{id} state {s} {}", self.states[i].name),
                NOp::Const(c) => {
                    let w = node.ty.width();
                    // vary the spelling deterministically by value
                    match (c, (c as usize + w as usize) % 4) {
                        (0, 0) => format!("{id} zero {s}{name}"),
                        (1, 1) => format!("{id} one {s}{name}"),
                        (c, 2) if c == crate::rng::mask(w) => format!("{id} ones {s}{name}"),
                        (c, 3) => format!("{id} constd {s} {c}{name}"),
                        (c, 0) if w % 4 == 0 => {
                            format!("{id} consth {s} {:0width$x}{name}", c, width = (w / 4) as usize)
                        }
                        (c, _) => format!("{id} const {s} {}{name}", Bv::new(w, c).to_bin()),
                    }
                }
                NOp::Slice(hi, lo) => format!("{id} slice {s} {} {hi} {lo}{name}", args[0]),
                NOp::Uext(k) => format!("{id} uext {s} {} {k}{name}", args[0]),
                NOp::Sext(k) => format!("{id} sext {s} {} {k}{name}", args[0]),
                op => format!("{id} {} {s} {}{name}", op.btor_name(), args.join(" ")),
            };
            lines.push(line);
        }
        for (i, st) in self.states.iter().enumerate() {
            let s = sort_id(st.ty, &mut sorts, &mut next_id, &mut lines);
            let sid = ids[self.state_node(i)];
            if let Some(init) = &st.init {
                let (n, neg) = match init {
                    InitDef::Node(n, neg) | InitDef::ArrayFromBv(n, neg) => (*n, *neg),
                };
                let id = next_id;
                next_id += 1;
                lines.push(format!("{id} init {s} {sid} {}", r(&ids, n, neg)));
            }
            if let Some((n, neg)) = st.next {
                let id = next_id;
                next_id += 1;
                lines.push(format!("{id} next {s} {sid} {}", r(&ids, n, neg)));
            }
        }
        for (n, neg) in &self.constraints {
            let id = next_id;
            next_id += 1;
            lines.push(format!("{id} constraint {}", r(&ids, *n, *neg)));
        }
        for (n, neg) in &self.bads {
            let id = next_id;
            next_id += 1;
            lines.push(format!("{id} bad {}", r(&ids, *n, *neg)));
        }
        for (name, n, neg) in &self.outputs {
            let id = next_id;
            next_id += 1;
            lines.push(format!("{id} output {} {name}", r(&ids, *n, *neg)));
        }
        for l in lines {
            out.push_str(&l);
            out.push('\n');
        }
        out
    }
}
