//! Shrinking of abstract systems for minimisation (every candidate is again well-formed).

use super::sys::*;

fn references(sys: &Sys) -> Vec<usize> {
    let mut cnt = vec![0usize; sys.nodes.len()];
    for n in &sys.nodes {
        for a in &n.args {
            cnt[*a] += 1;
        }
    }
    for st in &sys.states {
        if let Some(InitDef::Node(n, _) | InitDef::ArrayFromBv(n, _)) = &st.init {
            cnt[*n] += 1;
        }
        if let Some((n, _)) = st.next {
            cnt[n] += 1;
        }
    }
    for (n, _) in sys.constraints.iter().chain(sys.bads.iter()) {
        cnt[*n] += 1;
    }
    for (_, n, _) in &sys.outputs {
        cnt[*n] += 1;
    }
    cnt
}

/// removes unreferenced non-leaf nodes and renumbers
pub fn gc(sys: &Sys) -> Sys {
    let mut live = vec![false; sys.nodes.len()];
    let mut stack: Vec<usize> = vec![];
    for st in &sys.states {
        if let Some(InitDef::Node(n, _) | InitDef::ArrayFromBv(n, _)) = &st.init {
            stack.push(*n);
        }
        if let Some((n, _)) = st.next {
            stack.push(n);
        }
    }
    for (n, _) in sys.constraints.iter().chain(sys.bads.iter()) {
        stack.push(*n);
    }
    for (_, n, _) in &sys.outputs {
        stack.push(*n);
    }
    for (i, n) in sys.nodes.iter().enumerate() {
        if matches!(n.op, NOp::Input(_) | NOp::State(_)) {
            stack.push(i);
        }
    }
    while let Some(n) = stack.pop() {
        if live[n] {
            continue;
        }
        live[n] = true;
        for a in &sys.nodes[n].args {
            stack.push(*a);
        }
    }
    let mut map = vec![usize::MAX; sys.nodes.len()];
    let mut out = sys.clone();
    out.nodes.clear();
    out.node_names.clear();
    for (i, n) in sys.nodes.iter().enumerate() {
        if live[i] {
            map[i] = out.nodes.len();
            let mut n2 = n.clone();
            for a in n2.args.iter_mut() {
                *a = map[*a];
            }
            out.nodes.push(n2);
            if let Some(name) = sys.node_names.get(&i) {
                out.node_names.insert(map[i], name.clone());
            }
        }
    }
    let fix = |r: &mut usize| *r = map[*r];
    for st in out.states.iter_mut() {
        if let Some(InitDef::Node(n, _) | InitDef::ArrayFromBv(n, _)) = st.init.as_mut() {
            fix(n);
        }
        if let Some((n, _)) = st.next.as_mut() {
            fix(n);
        }
    }
    for (n, _) in out.constraints.iter_mut().chain(out.bads.iter_mut()) {
        fix(n);
    }
    for (_, n, _) in out.outputs.iter_mut() {
        fix(n);
    }
    out
}

/// replaces all references to node `n` by node `m` (which must come before `n` and have the same type)
fn redirect(sys: &Sys, n: usize, m: usize) -> Sys {
    let mut out = sys.clone();
    let fix = |r: &mut usize| {
        if *r == n {
            *r = m
        }
    };
    for node in out.nodes.iter_mut() {
        for a in node.args.iter_mut() {
            fix(a);
        }
    }
    for st in out.states.iter_mut() {
        if let Some(InitDef::Node(x, _) | InitDef::ArrayFromBv(x, _)) = st.init.as_mut() {
            fix(x);
        }
        if let Some((x, _)) = st.next.as_mut() {
            fix(x);
        }
    }
    for (x, _) in out.constraints.iter_mut().chain(out.bads.iter_mut()) {
        fix(x);
    }
    for (_, x, _) in out.outputs.iter_mut() {
        fix(x);
    }
    gc(&out)
}

/// removes state `i` if nothing but its own next/init refers to it
fn remove_state(sys: &Sys, i: usize) -> Option<Sys> {
    let sn = sys.state_node(i);
    let mut probe = sys.clone();
    probe.states[i].init = None;
    probe.states[i].next = None;
    let probe = gc(&probe);
    let sn2 = probe.state_node(i);
    if references(&probe)[sn2] != 0 {
        return None;
    }
    let _ = sn;
    let mut out = probe.clone();
    out.states.remove(i);
    // drop the leaf node and renumber states
    let mut map = vec![usize::MAX; out.nodes.len()];
    let mut nodes = vec![];
    let mut names = std::collections::BTreeMap::new();
    for (k, n) in out.nodes.iter().enumerate() {
        if k == sn2 {
            continue;
        }
        map[k] = nodes.len();
        let mut n2 = n.clone();
        if let NOp::State(j) = n2.op {
            if j > i {
                n2.op = NOp::State(j - 1);
            }
        }
        for a in n2.args.iter_mut() {
            *a = map[*a];
        }
        if let Some(name) = out.node_names.get(&k) {
            names.insert(map[k], name.clone());
        }
        nodes.push(n2);
    }
    out.nodes = nodes;
    out.node_names = names;
    let fix = |r: &mut usize| *r = map[*r];
    for st in out.states.iter_mut() {
        if let Some(InitDef::Node(n, _) | InitDef::ArrayFromBv(n, _)) = st.init.as_mut() {
            fix(n);
        }
        if let Some((n, _)) = st.next.as_mut() {
            fix(n);
        }
    }
    for (n, _) in out.constraints.iter_mut().chain(out.bads.iter_mut()) {
        fix(n);
    }
    for (_, n, _) in out.outputs.iter_mut() {
        fix(n);
    }
    Some(out)
}

fn remove_input(sys: &Sys, i: usize) -> Option<Sys> {
    let inn = sys.input_node(i);
    if references(sys)[inn] != 0 {
        return None;
    }
    let mut out = sys.clone();
    out.inputs.remove(i);
    out.orphan_inputs = out
        .orphan_inputs
        .iter()
        .filter(|x| **x != i)
        .map(|x| if *x > i { *x - 1 } else { *x })
        .collect();
    let mut map = vec![usize::MAX; out.nodes.len()];
    let mut nodes = vec![];
    let mut names = std::collections::BTreeMap::new();
    for (k, n) in out.nodes.iter().enumerate() {
        if k == inn {
            continue;
        }
        map[k] = nodes.len();
        let mut n2 = n.clone();
        if let NOp::Input(j) = n2.op {
            if j > i {
                n2.op = NOp::Input(j - 1);
            }
        }
        for a in n2.args.iter_mut() {
            *a = map[*a];
        }
        if let Some(name) = out.node_names.get(&k) {
            names.insert(map[k], name.clone());
        }
        nodes.push(n2);
    }
    out.nodes = nodes;
    out.node_names = names;
    let fix = |r: &mut usize| *r = map[*r];
    for st in out.states.iter_mut() {
        if let Some(InitDef::Node(n, _) | InitDef::ArrayFromBv(n, _)) = st.init.as_mut() {
            fix(n);
        }
        if let Some((n, _)) = st.next.as_mut() {
            fix(n);
        }
    }
    for (n, _) in out.constraints.iter_mut().chain(out.bads.iter_mut()) {
        fix(n);
    }
    for (_, n, _) in out.outputs.iter_mut() {
        fix(n);
    }
    Some(out)
}

/// all one-step shrink candidates, simplest-first
pub fn candidates(sys: &Sys) -> Vec<Sys> {
    let mut out: Vec<Sys> = vec![];
    // drop outputs, names, constraints, bads
    if !sys.outputs.is_empty() {
        let mut s = sys.clone();
        s.outputs.clear();
        out.push(gc(&s));
    }
    if !sys.node_names.is_empty() {
        let mut s = sys.clone();
        s.node_names.clear();
        out.push(s);
    }
    for i in 0..sys.constraints.len() {
        let mut s = sys.clone();
        s.constraints.remove(i);
        out.push(gc(&s));
    }
    if sys.bads.len() > 1 {
        for i in 0..sys.bads.len() {
            let mut s = sys.clone();
            s.bads.remove(i);
            out.push(gc(&s));
        }
    }
    // remove states / inputs
    for i in (0..sys.states.len()).rev() {
        if let Some(s) = remove_state(sys, i) {
            out.push(s);
        }
    }
    for i in (0..sys.inputs.len()).rev() {
        if let Some(s) = remove_input(sys, i) {
            out.push(s);
        }
    }
    // replace a node by one of its operands of the same type
    for n in (0..sys.nodes.len()).rev() {
        let node = &sys.nodes[n];
        for a in &node.args {
            if sys.nodes[*a].ty == node.ty {
                out.push(redirect(sys, n, *a));
            }
        }
    }
    // simplify state definitions
    for i in 0..sys.states.len() {
        if sys.states[i].init.is_some() {
            let mut s = sys.clone();
            s.states[i].init = None;
            // never create an orphan state: keep only if it still has a next
            if s.states[i].next.is_some() {
                out.push(gc(&s));
            }
        }
        let sn = sys.state_node(i);
        if let Some((n, _)) = sys.states[i].next {
            if n != sn {
                let mut s = sys.clone();
                s.states[i].next = Some((sn, false));
                out.push(gc(&s));
            }
        }
    }
    // clear negation flags
    for n in 0..sys.nodes.len() {
        for k in 0..sys.nodes[n].neg.len() {
            if sys.nodes[n].neg[k] {
                let mut s = sys.clone();
                s.nodes[n].neg[k] = false;
                out.push(s);
            }
        }
    }
    // plain names
    let fancy = |n: &str| n.chars().any(|c| !c.is_ascii_alphanumeric() && c != '_');
    if sys.states.iter().any(|s| fancy(&s.name)) || sys.inputs.iter().any(|s| fancy(&s.0)) {
        let mut s = sys.clone();
        for (i, st) in s.states.iter_mut().enumerate() {
            st.name = format!("s{i}");
        }
        let n_in = s.inputs.len();
        for (i, inp) in s.inputs.iter_mut().enumerate() {
            inp.0 = format!("i{i}");
        }
        let _ = n_in;
        out.push(s);
    }
    out
}
