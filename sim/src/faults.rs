//! Fault kinds and fault plans for the solver conversation.

use crate::rng::Rng;

#[derive(Clone, Debug, PartialEq, Eq)]
pub enum ExitWhen {
    BeforeRead,
    AfterRead,
}

#[derive(Clone, Debug, PartialEq, Eq)]
pub enum FaultKind {
    /// the solver answers `(error "msg")`
    ErrReply { msg: String, dies: bool },
    /// `unknown`, optionally followed by a reason line
    Unknown { reason: bool },
    /// blank line, or nothing and end-of-file
    Empty { eof: bool },
    /// proper prefix of the correct reply (cut position as a fraction), then exit
    Truncated { cut_permille: u32, status: i32 },
    /// the process dies instead of answering
    Exit { when: ExitWhen, status: i32, stderr: String },
    /// the process answers correctly and dies right afterwards
    ExitAfterReply { status: i32, stderr: String },
    /// bytes that are not a legal answer to the pending command
    Garbage { text: String, exit: Option<i32> },
    /// (re)start cannot spawn the process
    SpawnFail,
}

impl FaultKind {
    pub fn class(&self) -> &'static str {
        match self {
            FaultKind::ErrReply { .. } => "err-reply",
            FaultKind::Unknown { .. } => "unknown",
            FaultKind::Empty { .. } => "empty",
            FaultKind::Truncated { .. } => "truncated+exit",
            FaultKind::Exit { .. } => "exit",
            FaultKind::ExitAfterReply { .. } => "exit-after-reply",
            FaultKind::Garbage { .. } => "garbage",
            FaultKind::SpawnFail => "spawn-fail",
        }
    }
}

#[derive(Clone, Debug, PartialEq, Eq)]
pub enum FaultAt {
    /// n-th response-bearing command of the run (over all processes)
    Response(usize),
    /// c-th command of the run
    Command(usize),
    /// n-th spawn (0 = initial start)
    Spawn(usize),
    /// r-th response-bearing command of the process started by the s-th spawn (fault sequences:
    /// a later session is addressed independently of what earlier faults did to earlier sessions)
    ProcResponse(usize, usize),
}

#[derive(Clone, Debug, PartialEq, Eq)]
pub struct Fault {
    pub at: FaultAt,
    pub kind: FaultKind,
}

impl Fault {
    pub fn describe(&self) -> String {
        format!("{:?} {:?}", self.at, self.kind)
    }
}

#[derive(Clone, Debug)]
pub struct FiredFault {
    pub fault: Fault,
    /// a response the client waits for was altered or withheld
    pub effective: bool,
}

#[derive(Clone, Debug, Default)]
pub struct FaultPlan {
    pub faults: Vec<Fault>,
}

impl FaultPlan {
    pub fn none() -> Self {
        FaultPlan { faults: vec![] }
    }
    pub fn single(f: Fault) -> Self {
        FaultPlan { faults: vec![f] }
    }
    pub fn at(&self, cmd_index: usize, resp_index: Option<usize>, local: Option<(usize, usize)>) -> Option<Fault> {
        self.faults
            .iter()
            .find(|f| match &f.at {
                FaultAt::Command(c) => *c == cmd_index,
                FaultAt::Response(r) => Some(*r) == resp_index,
                FaultAt::Spawn(_) => false,
                FaultAt::ProcResponse(s, r) => Some((*s, *r)) == local,
            })
            .cloned()
    }
    pub fn at_spawn(&self, spawn_index: usize) -> Option<Fault> {
        self.faults
            .iter()
            .find(|f| f.at == FaultAt::Spawn(spawn_index))
            .cloned()
    }
}

/// error messages as real solvers print them, plus synthetic lengths
pub fn error_message_corpus() -> Vec<String> {
    let mut v: Vec<String> = vec![
        // z3
        "line 3 column 43: unknown constant s@0".into(),
        "line 14 column 14: model is not available".into(),
        "line 4 column 22: unsat assumptions construction is not enabled, use command (set-option :produce-unsat-assumptions true)".into(),
        "line 3 column 11: the logic has already been set".into(),
        "line 9 column 30: invalid declaration, constant 'x' (with the given signature) already declared".into(),
        "line 1 column 35: Sorts Bool and (_ BitVec 1) are incompatible".into(),
        // cvc5 (multi-line, with source excerpt and parentheses)
        "Parse Error: <stdin>:2.16: Only one set-logic is allowed.\n\n  (set-logic QF_BV)\n   ^\n".into(),
        "Parse Error: <stdin>:3.20: Symbol 'b' not declared as a variable\n\n  (assert (= a b))\n             ^\n".into(),
        "Cannot get unsat assumptions unless explicitly enabled (try --produce-unsat-assumptions)".into(),
        "Cannot get value unless immediately preceded by SAT/UNKNOWN response.".into(),
        // bitwuzla / yices
        "undefined symbol 'a'".into(),
        "unsupported option: ':produce-unsat-assumptions'".into(),
        "out of memory".into(),
        // unbalanced parentheses inside the quoted message
        "unexpected token ( while parsing".into(),
        "expected ) but found end of input".into(),
        "a message with an inner \"quoted\" part".into(),
    ];
    // synthetic lengths
    for n in [0usize, 1, 2, 5, 6, 7, 8, 13, 14, 15, 64, 4096] {
        let s: String = (0..n).map(|i| (b'a' + (i % 26) as u8) as char).collect();
        v.push(s);
    }
    v
}

/// replies that are not a legal answer to any pending command
pub fn garbage_corpus(for_core: bool) -> Vec<String> {
    let mut v: Vec<String> = vec![
        "success\n".into(),
        "unsupported\n".into(),
        ")\n".into(),
        "))\n".into(),
        "sat)\n".into(),
        "(unsat)\n".into(),
        "foo bar\n".into(),
        "(foo\n".into(), // unbalanced and then silence: followed by exit in the plan generator
        "((a\n".into(),
        "(error)\n".into(),
        "(error\n".into(),
        "\u{fffd}\u{fffd}\n".into(),
        "\"a string\"\n".into(),
        "((x #b01) (y #b10) extra\n".into(),
        "(((\n".into(),
        "|unterminated\n".into(),
        "42\n".into(),
        "(define-fun x () Bool true)\n".into(),
    ];
    if !for_core {
        v.push("()\n".into());
    }
    v
}

/// A random lossy fault kind for a response point. `unbalanced` garbage is always followed by
/// process exit (a stalled solver is not in the fault model).
pub fn random_response_fault(rng: &mut Rng, for_core: bool) -> FaultKind {
    let msgs = error_message_corpus();
    let garb = garbage_corpus(for_core);
    match rng.below(7) {
        0 => FaultKind::ErrReply {
            msg: rng.pick(&msgs).clone(),
            dies: rng.bool(),
        },
        1 => FaultKind::Unknown { reason: rng.chance(1, 4) },
        2 => FaultKind::Empty { eof: rng.bool() },
        3 => FaultKind::Truncated {
            cut_permille: rng.below(1000) as u32,
            status: *rng.pick(&[0, 1, 134]),
        },
        4 => FaultKind::Exit {
            when: if rng.bool() { ExitWhen::BeforeRead } else { ExitWhen::AfterRead },
            status: *rng.pick(&[0, 1, 134]),
            stderr: rng.pick(&["", "Segmentation fault\n", "terminate called after throwing an instance of 'std::bad_alloc'\n"]).to_string(),
        },
        5 => FaultKind::ExitAfterReply {
            status: *rng.pick(&[0, 1, 134]),
            stderr: rng.pick(&["", "Killed\n"]).to_string(),
        },
        _ => {
            let text = rng.pick(&garb).clone();
            let exit = if is_open_text(&text) || rng.chance(1, 3) {
                Some(*rng.pick(&[0, 1, 134]))
            } else {
                None
            };
            FaultKind::Garbage { text, exit }
        }
    }
}

/// true if a reader that balances parentheses / quotes would wait for more input after `text`
pub fn is_open_text(text: &str) -> bool {
    let mut depth: i64 = 0;
    let mut bars = 0;
    let mut quotes = 0;
    for c in text.chars() {
        match c {
            '(' => depth += 1,
            ')' => depth -= 1,
            '|' => bars += 1,
            '"' => quotes += 1,
            _ => {}
        }
    }
    depth > 0 || bars % 2 == 1 || quotes % 2 == 1
}
