//! Generic check runner: seeded parallel batch, deterministic merge in run-index order,
//! violation confirmation, minimisation, replay files, evidence, known findings.

use crate::harness::Stdio;
use crate::rng::mix;
use serde_json::{Value, json};
use std::collections::{BTreeMap, BTreeSet};
use std::sync::Mutex;
use std::sync::atomic::{AtomicUsize, Ordering};
use std::time::Instant;

#[derive(Clone, Copy, Debug, PartialEq, Eq)]
pub enum Tier {
    Quick,
    Thorough,
}

impl Tier {
    pub fn name(&self) -> &'static str {
        match self {
            Tier::Quick => "quick",
            Tier::Thorough => "thorough",
        }
    }
}

#[derive(Clone, Debug, PartialEq, Eq)]
pub struct Violation {
    pub property: String,
    /// which oracle fired, e.g. "C15/1"
    pub oracle: String,
    /// violation class, e.g. "Livelock", "WrongVerdict"
    pub class: String,
    /// code site / shape that identifies the finding, e.g. "smt/solver.rs:read_response"
    pub site: String,
    pub detail: String,
}

impl Violation {
    pub fn signature(&self) -> (String, String, String) {
        (self.oracle.clone(), self.class.clone(), self.site.clone())
    }
    pub fn to_json(&self) -> Value {
        json!({"property": self.property, "oracle": self.oracle, "class": self.class,
               "site": self.site, "detail": self.detail})
    }
}

/// per-run accumulators, merged in run order
#[derive(Default, Clone)]
pub struct Acc {
    pub counters: BTreeMap<String, u64>,
    /// maxima over runs (e.g. longest conversation), merged with max
    pub maxima: BTreeMap<String, u64>,
    pub distinct: BTreeSet<u64>,
    pub distinct2: BTreeSet<u64>,
    pub samples: Vec<Value>,
    pub sim_steps: u64,
    pub evaluations: u64,
    /// FNV hash over the event logs of the run (determinism proof)
    pub log_hash: u64,
    pub stub_failure: Option<String>,
    /// known findings that were hit: (key, description)
    pub known_hits: BTreeMap<String, String>,
}

impl Acc {
    pub fn count(&mut self, key: &str, n: u64) {
        *self.counters.entry(key.to_string()).or_insert(0) += n;
    }
    pub fn max(&mut self, key: &str, n: u64) {
        let e = self.maxima.entry(key.to_string()).or_insert(0);
        *e = (*e).max(n);
    }
    /// digest of everything a run observed (determinism proof for checks without a transport log)
    pub fn digest(&self) -> u64 {
        let mut h = crate::rng::fnv1a(b"acc");
        for (k, v) in &self.counters {
            h = crate::rng::mix(&[h, crate::rng::fnv1a(k.as_bytes()), *v]);
        }
        for d in &self.distinct {
            h = crate::rng::mix(&[h, *d]);
        }
        for d in &self.distinct2 {
            h = crate::rng::mix(&[h, *d, 2]);
        }
        crate::rng::mix(&[h, self.sim_steps, self.evaluations, self.log_hash])
    }

    /// merges the accumulator of a whole epoch (its log hash is already a hash over runs)
    pub fn merge_batch(&mut self, o: Acc) {
        let h = o.log_hash;
        let prev = self.log_hash;
        self.merge(o);
        self.log_hash = prev.rotate_left(11) ^ h;
    }

    pub fn merge(&mut self, o: Acc) {
        let run_digest = o.digest();
        for (k, v) in o.counters {
            *self.counters.entry(k).or_insert(0) += v;
        }
        for (k, v) in o.maxima {
            let e = self.maxima.entry(k).or_insert(0);
            *e = (*e).max(v);
        }
        // the sets are capped (memory): beyond the cap the distinct counts are lower bounds
        const CAP: usize = 4_000_000;
        if self.distinct.len() < CAP {
            self.distinct.extend(o.distinct);
        } else {
            *self.counters.entry("distinct_set_saturated".to_string()).or_insert(0) += 1;
        }
        if self.distinct2.len() < CAP {
            self.distinct2.extend(o.distinct2);
        }
        for s in o.samples {
            if self.samples.len() < 3 {
                self.samples.push(s);
            }
        }
        self.sim_steps += o.sim_steps;
        self.evaluations += o.evaluations;
        self.log_hash = self.log_hash.rotate_left(7) ^ run_digest;
        if self.stub_failure.is_none() {
            self.stub_failure = o.stub_failure;
        }
        for (k, v) in o.known_hits {
            self.known_hits.entry(k).or_insert(v);
        }
    }
}

pub struct EvidenceMeta {
    pub level: &'static str,
    pub rule: String,
    pub assumptions: Vec<String>,
    pub real_components: Vec<&'static str>,
    pub stub_components: Vec<&'static str>,
    pub distinct_measure: String,
    pub distinct2_measure: String,
}

pub trait Property: Sync {
    fn id(&self) -> &'static str;
    fn runs(&self, tier: Tier) -> usize;
    /// One run. Returns the first violation found together with the scenario that reproduces it.
    fn run(&self, run_seed: u64, tier: Tier, acc: &mut Acc) -> Option<(Violation, Value)>;
    /// probes of the shared accounting that cannot fire for this property's workload (with reason);
    /// they are reported separately instead of under `probes_at_zero`
    fn probes_not_applicable(&self) -> Vec<(&'static str, &'static str)> {
        vec![]
    }
    /// Re-executes a scenario (from a replay file or during minimisation).
    fn replay(&self, scenario: &Value, acc: &mut Acc) -> Result<Option<Violation>, String>;
    /// One-step shrink candidates of a scenario.
    fn shrink(&self, scenario: &Value) -> Vec<Value>;
    fn meta(&self) -> EvidenceMeta;
}

#[derive(Clone, Debug)]
pub struct KnownFinding {
    pub status: String,
    pub property: String,
    pub oracle: String,
    pub class: String,
    pub site: String,
    pub what_fails: String,
}

pub fn load_known_findings(path: &str) -> Vec<KnownFinding> {
    let txt = match std::fs::read_to_string(path) {
        Ok(t) => t,
        Err(_) => return vec![],
    };
    let v: Value = match serde_json::from_str(&txt) {
        Ok(v) => v,
        Err(_) => return vec![],
    };
    let mut out = vec![];
    if let Some(arr) = v["findings"].as_array() {
        for f in arr {
            let g = |k: &str| f["signature"][k].as_str().unwrap_or("").to_string();
            out.push(KnownFinding {
                status: f["status"].as_str().unwrap_or("").to_string(),
                property: f["property"].as_str().unwrap_or("").to_string(),
                oracle: g("oracle"),
                class: g("class"),
                site: g("site"),
                what_fails: f["what_fails"].as_str().unwrap_or("").to_string(),
            });
        }
    }
    out
}

pub fn is_known(known: &[KnownFinding], v: &Violation) -> Option<KnownFinding> {
    known
        .iter()
        .find(|k| {
            k.status == "known"
                && k.property == v.property
                && k.oracle == v.oracle
                && k.class == v.class
                && k.site == v.site
        })
        .cloned()
}

thread_local! {
    /// known findings visible to property code (so that a run can continue past a known finding)
    pub static KNOWN: std::cell::RefCell<Vec<KnownFinding>> = const { std::cell::RefCell::new(vec![]) };
}

/// Called by property code when an oracle fires: returns true if the violation is a listed known
/// finding (recorded in `acc`, the run continues), false if it must be reported.
pub fn filter_known(acc: &mut Acc, v: &Violation) -> bool {
    let hit = KNOWN.with(|k| is_known(&k.borrow(), v));
    match hit {
        Some(k) => {
            let key = format!("{}|{}|{}", k.oracle, k.class, k.site);
            acc.known_hits.entry(key).or_insert(k.what_fails.clone());
            acc.count("known_finding_hits", 1);
            true
        }
        None => false,
    }
}

pub fn verif_seed() -> u64 {
    std::env::var("VERIF_SEED")
        .ok()
        .and_then(|s| s.parse::<u64>().ok())
        .unwrap_or(1)
}

pub fn workers() -> usize {
    std::env::var("VERIF_WORKERS")
        .ok()
        .and_then(|s| s.parse::<usize>().ok())
        .unwrap_or_else(|| std::thread::available_parallelism().map(|n| n.get()).unwrap_or(4))
        .max(1)
}

pub fn run_seed_for(seed: u64, property: &str, index: usize) -> u64 {
    mix(&[seed, crate::rng::fnv1a(property.as_bytes()), index as u64])
}

/// last-resort wall-clock watchdog: a run that does not return at all (an endless loop in
/// patronus that never touches the simulated transport) cannot be caught by a step bound. The
/// deterministic oracles never depend on this; it only turns "the check hangs forever" into a
/// reported violation that names the seed of the run.
pub fn run_limit_s(tier: Tier) -> u64 {
    std::env::var("VERIF_RUN_LIMIT_S")
        .ok()
        .and_then(|s| s.parse().ok())
        .unwrap_or(match tier {
            Tier::Quick => 600,
            Tier::Thorough => 3600,
        })
}

fn write_timeout_replay(prop_id: &str, seed: u64, idx: usize, rs: u64, tier: Tier, secs: u64) -> String {
    let dir = format!("{}/replays", verif_dir());
    let _ = std::fs::create_dir_all(&dir);
    let path = format!("{dir}/{prop_id}-{seed}-{idx}-timeout.json");
    let file = json!({
        "format": 1, "property": prop_id, "verif_seed": seed, "run": idx, "run_seed": format!("{rs:#x}"),
        "violation": {"property": prop_id, "oracle": format!("{prop_id}/termination"), "class": "WallClockTimeout",
                      "site": "run", "detail": format!("run did not return within {secs} s of wall-clock time")},
        "scenario": {"kind": "run-seed", "run_seed": format!("{rs:#x}"), "tier": tier.name()},
    });
    let _ = std::fs::write(&path, serde_json::to_string_pretty(&file).unwrap());
    path
}

pub struct BatchResult {
    pub acc: Acc,
    pub runs_done: usize,
    pub first_violation: Option<(usize, u64, Violation, Value)>,
    pub wall_s: f64,
}

/// Runs are executed in epochs of at most `EPOCH` consecutive run indices: within an epoch the
/// workers take indices from a shared counter and the per-run results are merged in index order;
/// epochs follow each other. This bounds the memory held for un-merged results and lets the
/// batch print progress; the merged result is the same for every worker count.
const EPOCH: usize = 100_000;

pub fn run_batch(prop: &dyn Property, tier: Tier, seed: u64, n_runs: usize, known: &[KnownFinding]) -> BatchResult {
    let start = Instant::now();
    let mut total = BatchResult {
        acc: Acc::default(),
        runs_done: 0,
        first_violation: None,
        wall_s: 0.0,
    };
    let mut base = 0usize;
    while base < n_runs {
        let n = EPOCH.min(n_runs - base);
        let br = run_epoch(prop, tier, seed, base, n, known, start);
        total.acc.merge_batch(br.acc);
        total.runs_done += br.runs_done;
        let incomplete = br.runs_done < n;
        if total.first_violation.is_none() {
            total.first_violation = br.first_violation;
        }
        if (total.first_violation.is_some() && std::env::var("VERIF_COLLECT").is_err()) || incomplete {
            break;
        }
        base += n;
        if n_runs > EPOCH && std::env::var("PATSIM_PROGRESS").is_ok() {
            crate::harness::emergency_say(&format!(
                "progress: {}/{} runs, {:.0} s\n",
                total.runs_done,
                n_runs,
                start.elapsed().as_secs_f64()
            ));
        }
    }
    total.wall_s = start.elapsed().as_secs_f64();
    total
}

fn run_epoch(
    prop: &dyn Property,
    tier: Tier,
    seed: u64,
    base: usize,
    n_runs: usize,
    known: &[KnownFinding],
    start: Instant,
) -> BatchResult {
    let next = AtomicUsize::new(0);
    let stop_at = AtomicUsize::new(usize::MAX);
    let results: Mutex<Vec<Option<(Acc, Option<(Violation, Value)>)>>> =
        Mutex::new((0..n_runs).map(|_| None).collect());
    let wall_cap_s: f64 = std::env::var("VERIF_WALL_CAP_S")
        .ok()
        .and_then(|s| s.parse().ok())
        .unwrap_or(match tier {
            Tier::Quick => 600.0,
            Tier::Thorough => 1500.0,
        });
    let nw = workers().min(n_runs.max(1));
    // per worker: (run index + 1, start time in ms since `start`), 0 = idle
    let slots: Vec<(AtomicUsize, AtomicUsize)> = (0..nw).map(|_| (AtomicUsize::new(0), AtomicUsize::new(0))).collect();
    let done = std::sync::atomic::AtomicBool::new(false);
    let finished = AtomicUsize::new(0);
    let slot_counter = AtomicUsize::new(0);
    let limit = run_limit_s(tier);
    let prop_id = prop.id();
    std::thread::scope(|sc| {
        sc.spawn(|| {
            while !done.load(Ordering::SeqCst) {
                std::thread::sleep(std::time::Duration::from_millis(200));
                let now = start.elapsed().as_millis() as usize;
                for (idx1, t0) in &slots {
                    let i = idx1.load(Ordering::SeqCst);
                    if i > 0 && now.saturating_sub(t0.load(Ordering::SeqCst)) > (limit as usize) * 1000 {
                        let i = base + i - 1;
                        let rs = run_seed_for(seed, prop_id, i);
                        let path = write_timeout_replay(prop_id, seed, i, rs, tier, limit);
                        let msg = format!(
                            "run {i} (run seed {rs:#x}) did not return within {limit} s: possible non-termination\nVIOLATION property={prop_id} replay={path}\n"
                        );
                        // stdout may be redirected: write to the saved descriptor if there is one
                        crate::harness::emergency_say(&msg);
                        std::process::exit(1);
                    }
                }
            }
        });
        for _ in 0..nw {
            sc.spawn(|| {
                let my_slot = slot_counter.fetch_add(1, Ordering::SeqCst);
                KNOWN.with(|k| *k.borrow_mut() = known.to_vec());
                loop {
                    let i = next.fetch_add(1, Ordering::SeqCst);
                    if i >= n_runs || i > stop_at.load(Ordering::SeqCst) {
                        break;
                    }
                    if start.elapsed().as_secs_f64() > wall_cap_s {
                        break;
                    }
                    let rs = run_seed_for(seed, prop.id(), base + i);
                    let mut acc = Acc::default();
                    slots[my_slot].1.store(start.elapsed().as_millis() as usize, Ordering::SeqCst);
                    slots[my_slot].0.store(i + 1, Ordering::SeqCst);
                    let t_run = Instant::now();
                    let v = prop.run(rs, tier, &mut acc);
                    slots[my_slot].0.store(0, Ordering::SeqCst);
                    // wall-clock is observed outside the run and only reported (not part of any digest)
                    let ms = t_run.elapsed().as_millis() as u64;
                    acc.max("wall_ms_of_slowest_run", ms);
                    if ms > 10_000 && std::env::var("PATSIM_PROGRESS").is_ok() {
                        crate::harness::emergency_say(&format!("slow run: index {} took {ms} ms\n", base + i));
                    }
                    if v.is_some() && std::env::var("VERIF_COLLECT").is_err() {
                        // later runs are not needed: the first violation in index order wins
                        stop_at.fetch_min(i, Ordering::SeqCst);
                    }
                    results.lock().unwrap()[i] = Some((acc, v));
                }
                if finished.fetch_add(1, Ordering::SeqCst) + 1 == nw {
                    done.store(true, Ordering::SeqCst);
                }
            });
        }
    });
    let results = results.into_inner().unwrap();
    let mut acc = Acc::default();
    let mut runs_done = 0;
    let mut first_violation = None;
    for (i, r) in results.into_iter().enumerate() {
        match r {
            None => {
                // not executed (after a violation or after the wall-clock cap): stop merging at the
                // first gap so that the merged prefix is independent of the worker count
                break;
            }
            Some((a, v)) => {
                runs_done += 1;
                acc.merge(a);
                if let Some((viol, scn)) = v {
                    if std::env::var("VERIF_COLLECT").is_ok() {
                        // triage mode: list every distinct violation signature, keep going
                        let key = format!("{} | {} | {}", viol.oracle, viol.class, viol.site);
                        let e = acc.known_hits.entry(format!("COLLECTED {key}")).or_insert_with(|| viol.detail.clone());
                        let _ = e;
                        if first_violation.is_none() {
                            first_violation = Some((base + i, run_seed_for(seed, prop.id(), base + i), viol, scn));
                        }
                        continue;
                    }
                    first_violation = Some((base + i, run_seed_for(seed, prop.id(), base + i), viol, scn));
                    break;
                }
            }
        }
    }
    BatchResult {
        acc,
        runs_done,
        first_violation,
        wall_s: start.elapsed().as_secs_f64(),
    }
}

/// greedy delta debugging over `shrink` candidates, keeping the violation signature
pub fn minimise(prop: &dyn Property, scenario: &Value, viol: &Violation, max_attempts: usize) -> (Value, Violation, usize) {
    let mut cur = scenario.clone();
    let mut cur_v = viol.clone();
    let mut attempts = 0usize;
    let mut progress = true;
    while progress && attempts < max_attempts {
        progress = false;
        for cand in prop.shrink(&cur) {
            if attempts >= max_attempts {
                break;
            }
            attempts += 1;
            let mut acc = Acc::default();
            if let Ok(Some(v)) = prop.replay(&cand, &mut acc) {
                if v.signature() == viol.signature() {
                    cur = cand;
                    cur_v = v;
                    progress = true;
                    break;
                }
            }
        }
    }
    (cur, cur_v, attempts)
}

pub fn verif_dir() -> String {
    std::env::var("VERIF_DIR").unwrap_or_else(|_| "/verif".to_string())
}

pub fn write_evidence(
    prop: &dyn Property,
    tier: Tier,
    seed: u64,
    br: &BatchResult,
    violations: usize,
) -> Result<(), String> {
    let meta = prop.meta();
    let acc = &br.acc;
    let runs_per_hour = if br.wall_s > 0.0 {
        (br.runs_done as f64 / br.wall_s * 3600.0) as u64
    } else {
        0
    };
    let mut samples = acc.samples.clone();
    if samples.is_empty() {
        samples.push(json!("no sample recorded"));
    }
    let faults: BTreeMap<String, u64> = acc
        .counters
        .iter()
        .filter(|(k, _)| k.starts_with("fault."))
        .map(|(k, v)| (k.clone(), *v))
        .collect();
    let probes: BTreeMap<String, u64> = acc
        .counters
        .iter()
        .filter(|(k, _)| k.starts_with("probe."))
        .map(|(k, v)| (k.clone(), *v))
        .collect();
    let na_probes = prop.probes_not_applicable();
    let probes: BTreeMap<String, u64> = probes
        .into_iter()
        .filter(|(k, _)| !na_probes.iter().any(|(n, _)| n == k))
        .collect();
    let na_probes_json: Vec<Value> = na_probes.iter().map(|(n, r)| json!({"probe": n, "reason": r})).collect();
    let zero_probes: Vec<String> = probes
        .iter()
        .filter(|(_, v)| **v == 0)
        .map(|(k, _)| k.clone())
        .collect();
    let ev = json!({
        "property_id": prop.id(),
        "tier": tier.name(),
        "seed": seed,
        "level": meta.level,
        "coverage": {
            "evaluations": acc.evaluations.max(br.runs_done as u64),
            "distinct_nontrivial": acc.distinct.len(),
            "rule": meta.rule,
            "samples": samples,
            "exhaustive": false,
            "simulated_runs": br.runs_done,
            "runs_per_hour": runs_per_hour,
            "simulated_steps": acc.sim_steps,
            "simulated_time_note": "logical time: one step = one transport event or one workload operation; patronus has no clocks or timers",
            "distinct_measure": meta.distinct_measure,
            "distinct_secondary": acc.distinct2.len(),
            "distinct_secondary_measure": meta.distinct2_measure,
            "faults_fired": faults,
            "probes": probes,
            "probes_at_zero": zero_probes,
            "probes_not_applicable": na_probes_json,
            "counters": acc.counters,
            "maxima": acc.maxima,
            "event_log_hash": format!("{:016x}", acc.log_hash),
            "workers": workers(),
            "real_components": meta.real_components,
            "stub_components": meta.stub_components,
            "known_findings_hit": acc.known_hits,
        },
        "assumptions": meta.assumptions,
        "wall_s": br.wall_s,
        "violations": violations,
    });
    let dir = format!("{}/evidence", verif_dir());
    std::fs::create_dir_all(&dir).map_err(|e| e.to_string())?;
    let path = format!("{dir}/{}.json", prop.id());
    let tmp = format!("{path}.tmp");
    std::fs::write(&tmp, serde_json::to_string_pretty(&ev).unwrap()).map_err(|e| e.to_string())?;
    std::fs::rename(&tmp, &path).map_err(|e| e.to_string())?;
    Ok(())
}

/// Full check: batch, confirm, minimise, replay file, evidence. Returns the process exit code.
pub fn check(prop: &dyn Property, tier: Tier, out: &Stdio) -> i32 {
    let seed = verif_seed();
    let known = load_known_findings(&format!("{}/known_findings.json", verif_dir()));
    let n = std::env::var("VERIF_RUNS")
        .ok()
        .and_then(|s| s.parse().ok())
        .unwrap_or_else(|| prop.runs(tier));
    out.say(&format!(
        "check {} tier={} VERIF_SEED={} runs={} workers={}",
        prop.id(),
        tier.name(),
        seed,
        n,
        workers()
    ));
    let br = run_batch(prop, tier, seed, n, &known);
    if let Some(f) = &br.acc.stub_failure {
        out.say(&format!("HARNESS-ERROR: reference solver failure: {f}"));
        let _ = write_evidence(prop, tier, seed, &br, 0);
        return 2;
    }
    if let Some(n) = br.acc.counters.get("note.discrepancy_attributed_to_simplification") {
        out.say(&format!(
            "NOTE: {n} discrepancies disappeared when the system was not simplified first; they are attributed to system simplification (C01/C11, not claimed) and are not violations of {}",
            prop.id()
        ));
    }
    for (k, what) in &br.acc.known_hits {
        out.say(&format!("KNOWN-FINDING: property={} {} [{}]", prop.id(), what, k));
    }
    let code = match &br.first_violation {
        None => {
            out.say(&format!(
                "OK {}: {} runs, {} evaluations, {} distinct, {:.1}s{}",
                prop.id(),
                br.runs_done,
                br.acc.evaluations,
                br.acc.distinct.len(),
                br.wall_s,
                if br.runs_done < n {
                    format!(" (wall-clock cap reached: {n} runs were planned)")
                } else {
                    String::new()
                }
            ));
            0
        }
        Some((idx, rs, viol, scn)) => {
            out.say(&format!(
                "violation candidate in run {idx} (run seed {rs:#x}): {} {} {} — {}",
                viol.oracle, viol.class, viol.site, viol.detail
            ));
            // confirm
            KNOWN.with(|k| *k.borrow_mut() = known.clone());
            let mut acc = Acc::default();
            let confirmed = prop.replay(scn, &mut acc);
            match confirmed {
                Ok(Some(v2)) if v2.signature() == viol.signature() => {
                    let (min_scn, min_v, attempts) = minimise(prop, scn, viol, 400);
                    let dir = format!("{}/replays", verif_dir());
                    let _ = std::fs::create_dir_all(&dir);
                    let path = format!("{dir}/{}-{}-{}.json", prop.id(), seed, idx);
                    let file = json!({
                        "format": 1,
                        "property": prop.id(),
                        "verif_seed": seed,
                        "tier": tier.name(),
                        "run": idx,
                        "run_seed": format!("{rs:#x}"),
                        "violation": min_v.to_json(),
                        "scenario": min_scn,
                        "original_scenario": scn,
                        "minimisation_attempts": attempts,
                    });
                    let _ = std::fs::write(&path, serde_json::to_string_pretty(&file).unwrap());
                    out.say(&format!("  {}", min_v.detail));
                    out.say(&format!("VIOLATION property={} replay={}", prop.id(), path));
                    1
                }
                other => {
                    out.say(&format!(
                        "HARNESS-ERROR: violation did not reproduce from its recorded scenario: {other:?}"
                    ));
                    2
                }
            }
        }
    };
    let _ = write_evidence(prop, tier, seed, &br, if code == 1 { 1 } else { 0 });
    code
}

pub fn replay_file(prop: &dyn Property, path: &str, out: &Stdio) -> i32 {
    let txt = match std::fs::read_to_string(path) {
        Ok(t) => t,
        Err(e) => {
            out.say(&format!("HARNESS-ERROR: cannot read {path}: {e}"));
            return 2;
        }
    };
    let v: Value = match serde_json::from_str(&txt) {
        Ok(v) => v,
        Err(e) => {
            out.say(&format!("HARNESS-ERROR: cannot parse {path}: {e}"));
            return 2;
        }
    };
    let mut acc = Acc::default();
    if v["scenario"]["kind"].as_str() == Some("run-seed") {
        let rs = u64::from_str_radix(
            v["scenario"]["run_seed"].as_str().unwrap_or("0").trim_start_matches("0x"),
            16,
        )
        .unwrap_or(0);
        let tier = if v["scenario"]["tier"].as_str() == Some("thorough") { Tier::Thorough } else { Tier::Quick };
        let limit = run_limit_s(tier);
        let path2 = path.to_string();
        let pid = prop.id().to_string();
        std::thread::spawn(move || {
            std::thread::sleep(std::time::Duration::from_secs(limit));
            crate::harness::emergency_say(&format!(
                "run did not return within {limit} s: possible non-termination\nVIOLATION property={pid} replay={path2}\n"
            ));
            std::process::exit(1);
        });
        return match prop.run(rs, tier, &mut acc) {
            Some((viol, _)) => {
                out.say(&format!("{} {} {} — {}", viol.oracle, viol.class, viol.site, viol.detail));
                out.say(&format!("VIOLATION property={} replay={}", prop.id(), path));
                1
            }
            None => {
                if std::env::var("PATSIM_STATS").is_ok() {
                    for (k, v) in &acc.counters {
                        out.say(&format!("  {k} = {v}"));
                    }
                }
                out.say("replay: run returned without violation");
                0
            }
        };
    }
    match prop.replay(&v["scenario"], &mut acc) {
        Ok(Some(viol)) => {
            out.say(&format!(
                "{} {} {} — {}",
                viol.oracle, viol.class, viol.site, viol.detail
            ));
            out.say(&format!("VIOLATION property={} replay={}", prop.id(), path));
            1
        }
        Ok(None) => {
            out.say("replay: no violation");
            0
        }
        Err(e) => {
            out.say(&format!("HARNESS-ERROR: {e}"));
            2
        }
    }
}
