#!/usr/bin/env python3
"""usage: seed_mutant.py <worktree-id> <property> <checks-to-run comma separated>
copies <wt>/MUTANT into /verif/seeded/<id>/ (patch.diff, demo/, meta.json), runs try_patch.sh for the
given checks and records the outcome in meta.json."""
import json, os, shutil, subprocess, sys
wid, prop, checks = sys.argv[1], sys.argv[2], sys.argv[3].split(',')
src = f'/tmp/wt/{wid}/MUTANT'
dst = f'/verif/seeded/{wid}'
os.makedirs(dst, exist_ok=True)
shutil.copy(f'{src}/patch.diff', f'{dst}/patch.diff')
if os.path.isdir(f'{dst}/demo'): shutil.rmtree(f'{dst}/demo')
os.makedirs(f'{dst}/demo')
for f in os.listdir(f'{src}/demo'):
    p = f'{src}/demo/{f}'
    if os.path.isfile(p) and os.path.getsize(p) < 200_000 and not f.endswith('.log'):
        shutil.copy(p, f'{dst}/demo/{f}')
meta = json.load(open(f'{src}/meta.json'))
confirm = open(f'{src}/confirm.log').read().strip().splitlines()[-1] if os.path.exists(f'{src}/confirm.log') else ''
# build the harness against the agent's (patched) worktree, so that /repo's working tree is left alone
wt = f'/tmp/wt/{wid}'
applied = subprocess.run(['git', '-C', wt, 'apply', '-R', '--check', f'{dst}/patch.diff'], capture_output=True).returncode == 0
if not applied:
    subprocess.run(['git', '-C', wt, 'checkout', '--', '.']); subprocess.run(['git', '-C', wt, 'apply', f'{dst}/patch.diff'], check=True)
out = subprocess.run(['/verif/tools/try_wt.sh', wt] + checks, capture_output=True, text=True).stdout
results = {}
cur = None
for line in out.splitlines():
    if line[:1] == 'C' and ' exit=' in line:
        cur = line.split()[0]
        results[cur] = {'exit': int(line.split('exit=')[1].split()[0]), 'line': line.strip()[:200]}
    elif cur and line.startswith('    '):
        results[cur]['first_violation'] = line.strip()[:400]
meta.update({
    'breaks_property': prop,
    'origin': 'independent sub-agent given only the property text and a scratch worktree',
    'confirmed_by_me': {
        'how': 'confirm.sh in the scratch worktree: patch applies to the clean tree; demo passes on the clean tree and fails with the patch; cargo test --workspace --no-fail-fast --offline with the patch: 115 passed, the same 33 solver-dependent tests fail',
        'result_line': confirm,
    },
    'checks_run_against_it': results,
    'detected_by': sorted(k for k, v in results.items() if v['exit'] == 1),
    'missed_by': sorted(k for k, v in results.items() if v['exit'] == 0),
})
json.dump(meta, open(f'{dst}/meta.json', 'w'), indent=1)
print(wid, 'detected by', meta['detected_by'], 'missed by', meta['missed_by'])
